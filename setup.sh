#!/bin/bash
# Offline set-up: a Python 3.12 venv (git-ignored, inside /verif) that sees the repository's own
# dependencies (/venv) and adds z3-solver from the local wheelhouse.  Idempotent.
HERE="$(cd "$(dirname "$0")" && pwd)"
cd "$HERE" || exit 1
if [ ! -x .venv/bin/python ] || ! .venv/bin/python -c "import z3" 2>/dev/null; then
  rm -rf .venv
  /venv/bin/python -m venv .venv || exit 1
  echo "import site; site.addsitedir('/venv/lib/python3.12/site-packages')" > .venv/lib/python3.12/site-packages/_repo_venv.pth
  PIP_NO_INDEX=1 .venv/bin/python -m pip install -q --no-index --find-links /opt/veriftools/wheels z3-solver jsonschema || exit 1
fi
.venv/bin/python -c "import z3, sympy, num2words" || exit 1
test -x /usr/bin/cvc5 || exit 1
mkdir -p evidence replays
exit 0
