"""Relational (two-run) obligations on the tests of a token-dispatch loop:
every `if`/`elif` test in the loop body that mentions the token variable must
evaluate the same for two tokens of the same value-insignificant kind (C03),
plus reachability obligations of one designated branch (C04 top-level closer)."""
from __future__ import annotations

import ast
import z3

from .sym import *  # noqa
from .state import *  # noqa
from .engine import Frame
from .verify import Executor, FunctionReport


def _mentions(node, var):
    return any(isinstance(x, ast.Name) and x.id == var for x in ast.walk(node))


def collect_tests(body, var, ctx=()):
    """[(test node, context)] ; context = tuple of (node, polarity)"""
    out = []
    for st in body:
        if isinstance(st, ast.If):
            chain_ctx = ctx
            cur = st
            while True:
                if _mentions(cur.test, var):
                    out.append((cur.test, chain_ctx, cur))
                out += collect_tests(cur.body, var, chain_ctx + ((cur.test, True),))
                chain_ctx = chain_ctx + ((cur.test, False),)
                if len(cur.orelse) == 1 and isinstance(cur.orelse[0], ast.If):
                    cur = cur.orelse[0]
                    continue
                out += collect_tests(cur.orelse, var, chain_ctx)
                break
        elif isinstance(st, (ast.For, ast.While, ast.Try, ast.With)):
            for fld in ("body", "orelse", "finalbody"):
                out += collect_tests(getattr(st, fld, []) or [], var, ctx)
            for h in getattr(st, "handlers", []):
                out += collect_tests(h.body, var, ctx)
    return out


def _loop_node(fnode, ordinal, world):
    for x in ast.walk(fnode):
        if isinstance(x, (ast.While, ast.For)) and world.loop_index.get(id(x)) == ordinal:
            return x
    return None


def dispatch_obligations(world, key, loop_ordinal, var, tok_ty, env_types, lit_kinds, name, extra=None):
    rep = FunctionReport(f"{key}#dispatch")
    fn = world.find_function(key)
    if fn is None:
        rep.error, rep.error_kind = f"function {key} not found", "stale"
        return rep
    rep.source_hash = world.source_hash(key)
    loop = _loop_node(fn.node, loop_ordinal, world)
    if loop is None:
        rep.error, rep.error_kind = f"loop {loop_ordinal} of {key} not found", "stale"
        return rep
    tests = collect_tests(loop.body, var)
    path = Path([], [])
    ex = Executor(path, world)
    ex.prefix = name
    ex.line0 = fn.node.lineno
    ex.bounds_checks = False
    ex.spec_mode = 1
    try:
        kind = named("kind", tok_ty.fields[0][1])
        path.assume(z3.And(kind.z >= 0, kind.z < len(list(tok_ty.fields[0][1].pycls))))
        v1, v2 = named("v1", STR), named("v2", STR)
        shared = {nm: ex.make_param(nm, ty) for nm, ty in env_types.items()}
        t1 = SV(tok_ty.mk(kind.z, v1.z), tok_ty)
        t2 = SV(tok_ty.mk(kind.z, v2.z), tok_ty)
        e1, e2 = dict(shared), dict(shared)
        e1[var], e2[var] = t1, t2
        f1, f2 = Frame(e1, fn.globals, fn.name), Frame(e2, fn.globals, fn.name)
        lit = z3.Or([kind.z == enum_index(k) for k in lit_kinds])

        def ev(node, fr):
            t = ex.truth(ex.eval(node, fr))
            return z3.BoolVal(t) if isinstance(t, bool) else t

        def ctx_z(ctx, fr):
            zs = []
            for node, pol in ctx:
                z = ev(node, fr)
                zs.append(z if pol else z3.Not(z))
            return z3.And(zs + [z3.BoolVal(True)])

        if not tests:
            rep.error, rep.error_kind = "no dispatch tests found", "stale"
            return rep
        for test, ctx, ifnode in tests:
            c1, c2 = ctx_z(ctx, f1), ctx_z(ctx, f2)
            a, b = ev(test, f1), ev(test, f2)
            ob = Obligation(f"{name}/branch-agree@+{test.lineno - fn.node.lineno}", "branch-agree", list(path.pc) + [lit, c1, c2], a == b, where=f"{key}:{test.lineno} `{ast.unparse(test)[:80]}`")
            ob.meta["vars"] = ("kind", "v1", "v2")
            rep.obligations.append(ob)
        # cover: the two runs may differ
        rep.obligations.append(Obligation(f"{name}/cover-two-runs", "cover", list(path.pc) + [lit, v1.z != v2.z], z3.BoolVal(True), expect="sat"))
        if extra:
            extra(ex, path, rep, fn, loop, tests, kind, v1, f1, ev, ctx_z)
    except VCError as e:
        rep.error, rep.error_kind = f"{type(e).__name__}: {e}", "subset"
    rep.paths = 1
    return rep
