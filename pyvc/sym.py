"""Types and symbolic values of the VC generator, and the encoding of Python's
operators on them.  Everything here is pure (no path state)."""
from __future__ import annotations

import enum
import z3

# --------------------------------------------------------------------------- errors


class VCError(Exception):
    """The function left the supported subset / a contract is missing."""


class OutOfSubset(VCError):
    pass


class NeedsContract(VCError):
    pass


# --------------------------------------------------------------------------- types

VAL_SORT = z3.DeclareSort("Val")


class Ty:
    """Type descriptor.  kind in int,bool,str,char,val,seq,rec,enum."""

    def __init__(self, kind, elem=None, name=None, fields=None, pycls=None):
        self.kind, self.elem, self.name = kind, elem, name
        self.fields = fields  # list[(fname, Ty)] for rec
        self.pycls = pycls
        self._sort = None
        self._dt = None

    def __repr__(self):
        if self.kind == "seq":
            return f"Seq({self.elem!r})"
        if self.kind in ("rec", "enum"):
            return f"{self.kind}:{self.name}"
        return self.kind

    def __eq__(self, o):
        return isinstance(o, Ty) and repr(self) == repr(o)

    def __hash__(self):
        return hash(repr(self))

    def sort(self):
        if self._sort is not None:
            return self._sort
        k = self.kind
        if k in ("int", "enum"):
            s = z3.IntSort()
        elif k == "bool":
            s = z3.BoolSort()
        elif k in ("str", "char"):
            s = z3.StringSort()
        elif k == "val":
            s = VAL_SORT
        elif k == "seq":
            if self.elem.kind == "char":
                s = z3.StringSort()
            else:
                s = z3.SeqSort(self.elem.sort())
        elif k == "rec":
            dt = z3.Datatype(self.name)
            dt.declare("mk_" + self.name, *[(f"{self.name}_{f}", t.sort()) for f, t in self.fields])
            self._dt = dt.create()
            s = self._dt
        else:
            raise OutOfSubset(f"no sort for {k}")
        self._sort = s
        return s

    # record helpers
    def mk(self, *zs):
        self.sort()
        return self._dt.constructor(0)(*zs)

    def acc(self, i):
        self.sort()
        return self._dt.accessor(0, i)

    def field_index(self, f):
        for i, (n, _) in enumerate(self.fields):
            if n == f:
                return i
        raise OutOfSubset(f"record {self.name} has no field {f}")


INT = Ty("int")
BOOL = Ty("bool")
STR = Ty("str")
CHAR = Ty("char")
VAL = Ty("val")

VINT = z3.Function("vint", z3.IntSort(), VAL_SORT)  # int -> Val (injective: see world.val_axioms)
VSTR = z3.Function("vstr", z3.StringSort(), VAL_SORT)
VLIST = z3.Function("vlist", z3.SeqSort(VAL_SORT), VAL_SORT)

_REC_CACHE = {}


def SEQ(elem):
    return STR if elem.kind == "char" else Ty("seq", elem=elem)


def REC(name, fields):
    if name not in _REC_CACHE:
        _REC_CACHE[name] = Ty("rec", name=name, fields=list(fields))
    return _REC_CACHE[name]


def ENUM(pycls):
    return Ty("enum", name=pycls.__name__, pycls=pycls)


def elem_of(ty):
    if ty.kind == "str":
        return CHAR
    if ty.kind == "seq":
        return ty.elem
    raise OutOfSubset(f"not a sequence type: {ty}")


class SV:
    """A symbolic immutable value: a z3 term plus its type."""

    __slots__ = ("z", "ty")

    def __init__(self, z, ty):
        self.z, self.ty = z, ty

    def __repr__(self):
        return f"SV<{self.ty}:{self.z}>"

    def __bool__(self):
        raise OutOfSubset("symbolic value used as a Python bool outside a fork point")


_counter = [0]


def reset_fresh():
    _counter[0] = 0


def fresh_name(base):
    _counter[0] += 1
    return f"{base}!{_counter[0]}"


def fresh(base, ty):
    return SV(z3.Const(fresh_name(base), ty.sort()), ty)


def named(name, ty):
    return SV(z3.Const(name, ty.sort()), ty)


# --------------------------------------------------------------------------- lifting


def is_sym(v):
    return isinstance(v, SV)


def enum_index(member):
    return list(type(member)).index(member)


def lift(v, ty=None):
    """Python constant (or SV) -> SV of type ty (inferred when ty is None)."""
    if isinstance(v, SV):
        if ty is not None and v.ty != ty:
            if v.ty.kind == "char" and ty.kind == "str" or v.ty.kind == "str" and ty.kind == "char":
                return SV(v.z, ty)
            if v.ty.kind == "bool" and ty.kind == "int":
                return SV(z3.If(v.z, 1, 0), INT)
            if v.ty.kind == "enum" and ty.kind == "int" or v.ty.kind == "int" and ty.kind == "enum":
                return SV(v.z, ty)
            if ty.kind == "val" and v.ty.kind == "int":
                return SV(VINT(v.z), VAL)
            if ty.kind == "val" and v.ty.kind in ("str", "char"):
                return SV(VSTR(v.z), VAL)
            if ty.kind == "val" and v.ty.kind == "bool":
                return SV(VINT(z3.If(v.z, 1, 0)), VAL)  # a Python bool among Vyxal values: True == 1, False == 0
            if ty.kind == "val" and v.ty.kind == "seq" and v.ty.elem.kind == "val":
                return SV(VLIST(v.z), VAL)
            raise OutOfSubset(f"cannot coerce {v.ty} to {ty}")
        return v
    if ty is not None and ty.kind == "val" and isinstance(v, (int, str)) and not isinstance(v, enum.Enum):
        # injection of Python scalars into the opaque Vyxal value sort
        if isinstance(v, str):
            return SV(VSTR(z3.StringVal(v)), VAL)
        return SV(VINT(z3.IntVal(int(v))), VAL)
    if isinstance(v, bool):
        if ty is not None and ty.kind == "int":
            return SV(z3.IntVal(int(v)), INT)
        return SV(z3.BoolVal(v), BOOL)
    if isinstance(v, int):
        return SV(z3.IntVal(v), INT)
    if isinstance(v, str):
        t = ty if ty is not None and ty.kind in ("str", "char") else (CHAR if len(v) == 1 else STR)
        return SV(z3.StringVal(v), t)
    if isinstance(v, enum.Enum):
        return SV(z3.IntVal(enum_index(v)), ENUM(type(v)))
    if isinstance(v, (list, tuple)):
        if ty is None:
            if not v:
                raise OutOfSubset("cannot infer the type of an empty display")
            if any(isinstance(x, SV) and x.ty.kind == "val" for x in v):
                ty = SEQ(VAL)  # a display mixing opaque values and Python scalars is a list of values
            else:
                ty = SEQ(lift(v[0]).ty)
        if ty.kind == "rec":
            if len(v) != len(ty.fields):
                raise OutOfSubset("record arity mismatch")
            return SV(ty.mk(*[lift(x, ft).z for x, (_, ft) in zip(v, ty.fields)]), ty)
        et = elem_of(ty)
        if not v:
            return SV(z3.Empty(ty.sort()), ty)
        units = [unit(lift(x, et)) for x in v]
        return SV(z3.Concat(*units) if len(units) > 1 else units[0], ty)
    raise OutOfSubset(f"cannot lift {type(v).__name__} value {v!r}")


def unit(sv):
    """one-element sequence holding sv"""
    if sv.ty.kind in ("char", "str"):
        return sv.z
    return z3.Unit(sv.z)


def simp(z):
    return z3.simplify(z)


def as_const(z):
    """z3 term -> python constant if it is a literal, else None"""
    z = z3.simplify(z)
    if z3.is_int_value(z):
        return z.as_long()
    if z3.is_true(z):
        return True
    if z3.is_false(z):
        return False
    if z3.is_string_value(z):
        return z.as_string() if not _has_escape(z) else None
    return None


def _has_escape(z):
    s = z.as_string()
    return "\\u{" in s


def pystr(z):
    """python str of a z3 string literal (decoding z3's \\u{..} escapes)"""
    import re

    s = z.as_string()
    return re.sub(r"\\u\{([0-9a-fA-F]+)\}", lambda m: chr(int(m.group(1), 16)), s)


# --------------------------------------------------------------------------- int ops


def py_floordiv(a, b):
    cb = as_const(b)
    if cb is not None and cb > 0:
        return a / b  # z3 div: floor for positive divisor
    return z3.If(b > 0, a / b, (-a) / (-b))


def py_mod(a, b):
    cb = as_const(b)
    if cb is not None and cb > 0:
        return a % b
    return a - b * py_floordiv(a, b)


def zmax(a, b):
    return z3.If(a >= b, a, b)


def zmin(a, b):
    return z3.If(a <= b, a, b)


# --------------------------------------------------------------------------- sequence ops


def seq_len(sv):
    return z3.Length(sv.z)


NONNEG = {}  # ids of z3 terms known non-negative on the current path (reset per path)


def note_nonneg(z):
    """record facts of the shape x >= c (c >= 0) found in an assumed formula"""
    if z3.is_and(z):
        for c in z.children():
            note_nonneg(c)
        return
    if z3.is_app(z) and z.num_args() == 2:
        a, b = z.arg(0), z.arg(1)
        k = z.decl().kind()
        if k == z3.Z3_OP_GE and z3.is_int_value(b) and b.as_long() >= 0:
            NONNEG[a.get_id()] = a
        elif k == z3.Z3_OP_GT and z3.is_int_value(b) and b.as_long() >= -1:
            NONNEG[a.get_id()] = a
        elif k == z3.Z3_OP_LE and z3.is_int_value(a) and a.as_long() >= 0:
            NONNEG[b.get_id()] = b
        elif k == z3.Z3_OP_LT and z3.is_int_value(a) and a.as_long() >= -1:
            NONNEG[b.get_id()] = b


def is_nonneg(z):
    if z3.is_int_value(z):
        return z.as_long() >= 0
    if z.get_id() in NONNEG:
        return True
    if z3.is_app(z):
        k = z.decl().kind()
        if k == z3.Z3_OP_SEQ_LENGTH:
            return True
        if k in (z3.Z3_OP_ADD, z3.Z3_OP_MUL):
            return all(is_nonneg(c) for c in z.children())
        if k == z3.Z3_OP_ITE:
            return is_nonneg(z.arg(1)) and is_nonneg(z.arg(2))
    return False


def norm_index(i, n):
    """python index normalisation for a possibly negative index"""
    ci = as_const(i)
    if ci is not None:
        return i if ci >= 0 else n + i
    if is_nonneg(i):
        return i
    return z3.If(i < 0, i + n, i)


def seq_nth(sv, i):
    """element at *normalised* index i (caller emitted the bounds obligation)"""
    et = elem_of(sv.ty)
    if sv.ty.kind == "str":
        return SV(z3.SubString(sv.z, i, 1), CHAR)
    return SV(sv.z[i], et)


def clamp_lo(i, n):
    """start index of a python slice -> offset for seq.extract (extract clamps the top)"""
    ci = as_const(i)
    if ci is not None:
        return i if ci >= 0 else zmax(n + i, z3.IntVal(0))
    if is_nonneg(i):
        return i
    si = z3.simplify(i)
    if is_nonneg(si):  # e.g. (k + 1) - 1
        return si
    return z3.If(i < 0, zmax(i + n, z3.IntVal(0)), i)


def seq_slice(sv, lo, hi):
    """python s[lo:hi], step 1; lo/hi are z3 ints or None"""
    if hi is None and lo is not None and z3.is_app(sv.z) and sv.z.decl().kind() == z3.Z3_OP_SEQ_EXTRACT:
        # (s[off:off+L])[lo:]  ==  s[off+lo : off+L]   for off, lo >= 0 (seq.extract semantics: empty when the
        # offset is out of range or the length is not positive -- both sides agree in every such case).
        # z3's sequence solver is slow on extract-of-extract; this keeps such facts syntactic.
        base, off, ln = sv.z.arg(0), sv.z.arg(1), sv.z.arg(2)
        lo_s = z3.simplify(lo)
        if is_nonneg(off) and is_nonneg(lo_s):
            return SV(z3.SubSeq(base, z3.simplify(off + lo_s), z3.simplify(ln - lo_s)), sv.ty)
    n = seq_len(sv)
    lo_z = z3.IntVal(0) if lo is None else clamp_lo(lo, n)
    if hi is None:
        hi_z = n
    else:
        hi_z = clamp_lo(hi, n)
    # seq.extract(s, off, len): empty when off outside [0,len(s)) or len<=0; truncates at the end.
    # python: s[lo:hi] with lo>=len -> empty; hi>len -> clamp; hi<lo -> empty.  identical.
    ln = hi_z if lo is None else z3.simplify(hi_z - lo_z)
    return SV(z3.SubSeq(sv.z, lo_z, ln), sv.ty)


def seq_concat(a, b):
    return SV(z3.Concat(a.z, b.z), a.ty if a.ty.kind != "char" else STR)


def seq_update(sv, i, elem):
    """sequence equal to sv except position i (normalised, in bounds) holds elem"""
    n = seq_len(sv)
    z = z3.Concat(z3.SubSeq(sv.z, z3.IntVal(0), i), unit(elem), z3.SubSeq(sv.z, i + 1, n - i - 1))
    return SV(z, sv.ty)
