"""Native (CPython) meaning of the clause-only builtins, used when a clause or a spec
function is evaluated concretely (replay, ground obligations, cover witnesses)."""


def implies(a, b):
    return (not a) or b


def _try(f, d, default):
    try:  # `implies` is strict natively: an out-of-range index can only occur under a false guard
        return f(d)
    except (IndexError, ZeroDivisionError):
        return default


def forall_int(f):
    return all(_try(f, d, True) for d in range(-2, 300))


def exists_int(f):
    return any(_try(f, d, False) for d in range(-2, 300))
