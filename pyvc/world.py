"""World: the repository's source (read from the working tree on every run),
the contract registry, resolution of globals, calls by contract, and the driver
that verifies one function against its contract."""
from __future__ import annotations

import ast
import collections
import enum
import hashlib
import importlib
import inspect
import os
import re
import sys
import time
import types as pytypes
import z3

from .sym import *  # noqa
from .state import *  # noqa
from .engine import *  # noqa
from .engine import _Return, _Break, _Continue, _Raise, _Unbound
from .engine3 import ExecFull, _dec_name, _root_text
from .engine2 import GenResult

REPO = os.environ.get("VERIF_REPO", "/repo")


class Contract:
    def __init__(self, target, **kw):
        self.target = target
        self.params = kw.pop("params", {})  # name -> Ty | ObjSpec | ('list', Ty) | ...
        self.result = kw.pop("result", None)
        self.requires = kw.pop("requires", [])
        self.ensures = kw.pop("ensures", [])
        self.modifies = kw.pop("modifies", [])
        self.loops = kw.pop("loops", {})
        self.raises = kw.pop("raises", {})
        self.props = kw.pop("props", [])
        self.inline = kw.pop("inline", False)
        self.fuel = kw.pop("fuel", 1)
        self.hints = kw.pop("hints", [])
        self.at_yield = kw.pop("at_yield", [])
        # generators only: what other code may do to the object while this generator is suspended at a yield
        # dict(lets={name: clause}, modifies=[places], rely=[clauses over the state before (lets) and after])
        self.interference = kw.pop("interference", None)
        # template mode: callees to be left uninterpreted (app_<name>) even when they have a contract of their own
        self.opaque_calls = kw.pop("opaque_calls", [])
        self.asserts = kw.pop("asserts", [])  # intermediate facts at the exit: proved, then assumed for the postcondition
        self.yields = kw.pop("yields", None)  # elem Ty for generators
        self.yields_expr = kw.pop("yields_expr", None)  # clause: the whole sequence the generator yields
        self.ghost = kw.pop("ghost", {})  # ghost name -> Ty (logical variables)
        self.lets = kw.pop("lets", {})  # name -> clause text evaluated at entry (old values)
        self.trusted = kw.pop("trusted", False)  # assumed, body not verified
        self.note = kw.pop("note", "")
        self.setup = kw.pop("setup", None)
        self.frame_check = kw.pop("frame_check", True)
        self.closures = kw.pop("closures", {})  # nested def name -> Contract-like dict
        self.unwind = kw.pop("unwind", None)
        self.executor = kw.pop("executor", None)  # "template": calls without a contract are uninterpreted functions over Val
        self.may_raise = kw.pop("may_raise", ())  # exception names (or True) that are not obligations of this contract
        self.witness = kw.pop("witness", None)
        self.semantic_prune = kw.pop("semantic_prune", False)  # prune conditional expressions of specs with solver queries  # concrete arguments satisfying `requires` (vacuity guard)
        self.abstract_globals = kw.pop("abstract_globals", {})  # name -> (Ty, [facts]) : verified for every value with these facts
        self.ensures_names = kw.pop("ensures_names", None)
        if kw:
            raise TypeError(f"unknown contract fields {list(kw)}")


class ObjSpec:
    """declared shape of a heap object parameter"""

    def __init__(self, cls, fields, mutable=()):
        self.cls, self.fields, self.mutable = cls, fields, set(mutable)


class ListOf:
    """parameter that is a mutable list whose contents have type SEQ(elem)"""

    def __init__(self, elem):
        self.elem = elem


class IterOf:
    def __init__(self, elem):
        self.elem = elem


class World:
    def __init__(self, repo=REPO):
        self.repo = repo
        self.contracts = {}
        self.specs = {}
        self.lemmas = {}
        self.analyses = {}  # name -> (callable(world) -> FunctionReport, props)
        self.modules = {}  # path -> (ast.Module, source)
        self.fn_index = {}  # key -> RealFn
        self.loop_index = {}  # id(loop node) -> ordinal in source order within its top-level function
        self.assumptions = []
        self.clause_cache = {}
        self.obj_specs = {}
        self.records = {}
        self.ufns = {}
        self.global_overrides = {}
        self.clause_globals = {}  # extra names visible in contract clauses
        self.sink_handler = None
        self.truthy_fn = z3.Function("truthy", VAL_SORT, z3.BoolSort())
        self.pow_fn = z3.Function("pow", z3.IntSort(), z3.IntSort(), z3.IntSort())
        self._rev = {}
        self.rev_spec_for = {}
        self._charpred = {}
        self.stats = collections.Counter()
        if repo not in sys.path:
            sys.path.insert(0, repo)

    # ------------------------------------------------------------------ registry
    def contract(self, target, **kw):
        c = Contract(target, **kw)
        self.contracts[target] = c
        return c

    def spec(self, arg_tys, res_ty):
        def deco(fn):
            src = inspect.getsource(fn)
            import textwrap

            node = ast.parse(textwrap.dedent(src)).body[0]
            sf = SpecFn(fn, arg_tys, res_ty, node, fn.__globals__)
            self.specs[fn.__name__] = sf
            return fn

        return deco

    def lemma(self, name, **kw):
        from .lemmas import Lemma

        self.lemmas[name] = Lemma(name, **kw)
        return self.lemmas[name]

    def analysis(self, name, fn, props):
        self.analyses[name] = (fn, list(props))

    def used_assumption(self, text):
        if text not in self.assumptions:
            self.assumptions.append(text)

    def truthy(self, z):
        self.used_assumption("truthiness of an opaque Vyxal value is an uninterpreted predicate")
        return self.truthy_fn(z)

    # ------------------------------------------------------------------ source
    def module_ast(self, relpath):
        if relpath not in self.modules:
            src = open(os.path.join(self.repo, relpath), encoding="utf-8").read()
            self.modules[relpath] = (ast.parse(src), src)
        return self.modules[relpath]

    def pymodule(self, relpath):
        name = relpath[:-3].replace("/", ".")
        if name.startswith("vyxal.") and "vyxal.helpers" not in sys.modules:
            try:  # vyxal.LazyList and vyxal.helpers import each other: helpers has to come first
                importlib.import_module("vyxal.helpers")
            except Exception:
                pass
        return importlib.import_module(name)

    def find_function(self, key):
        """key 'vyxal/helpers.py::pop' or 'vyxal/LazyList.py::LazyList.__next__'"""
        if key in self.fn_index:
            return self.fn_index[key]
        relpath, qual = key.split("::")
        qual = qual.split("#")[0]  # `fn#case`: several contracts (argument shapes) on one function
        mod, _ = self.module_ast(relpath)
        parts = qual.split(".")
        body, cls = mod.body, None
        node = None
        for i, p in enumerate(parts):
            found = None
            for st in body:
                if isinstance(st, (ast.FunctionDef, ast.ClassDef)) and st.name == p:
                    found = st
            if found is None:
                return None
            if isinstance(found, ast.ClassDef):
                cls = found.name
            body, node = found.body, found
        if not isinstance(node, ast.FunctionDef):
            return None
        fn = RealFn(key, node, self.pymodule(relpath).__dict__, cls=cls)
        fn.relpath = relpath
        self.index_loops(node)
        self.fn_index[key] = fn
        return fn

    def index_loops(self, fnode):
        n = [0]

        def visit(x):
            if isinstance(x, (ast.While, ast.For)):
                self.loop_index[id(x)] = n[0]
                n[0] += 1
            for c in ast.iter_child_nodes(x):
                visit(c)

        visit(fnode)

    def source_hash(self, key):
        fn = self.find_function(key)
        if fn is None:
            return None
        return hashlib.sha256(ast.dump(fn.node).encode()).hexdigest()[:16]

    def method(self, cls, name):
        relpath = self.obj_specs[cls].relpath if cls in self.obj_specs and hasattr(self.obj_specs[cls], "relpath") else None
        if relpath is None:
            return None
        return self.find_function(f"{relpath}::{cls}.{name}")

    def mutable_fields(self, cls):
        s = self.obj_specs.get(cls)
        return s.mutable if s else set()

    # ------------------------------------------------------------------ globals
    BUILTINS = {"implies", "forall_int", "exists_int", "it_src", "it_pos", "len", "range", "min", "max", "abs", "divmod", "int", "bool", "str", "list", "tuple", "iter", "next", "isinstance", "type", "all", "any", "chr", "ord", "repr", "reversed", "print", "input", "eval", "exec"}

    def global_value(self, name, globs):
        if name in self.global_overrides:
            return self.global_overrides[name]
        if name in self.specs:
            return self.specs[name]
        if name in self.lemmas:
            from .lemmas import LemmaFn

            return LemmaFn(self.lemmas[name])
        if name in ("implies", "forall_int", "exists_int", "it_src", "it_pos"):
            return Builtin(name)
        if name in globs:
            return self.wrap_global(globs[name], name)
        if name in self.BUILTINS:
            return Builtin(name)
        if name in self.clause_globals:
            return self.wrap_global(self.clause_globals[name], name)
        import builtins

        if hasattr(builtins, name):
            return self.wrap_global(getattr(builtins, name), name)
        raise OutOfSubset(f"unknown global {name}")

    def import_from(self, module, name):
        m = importlib.import_module(module)
        return self.wrap_global(getattr(m, name), name)

    def wrap_global(self, v, name=None):
        if isinstance(v, (bool, int, str, type(None), enum.Enum)):
            return v
        if isinstance(v, (UFn, SpecFn, RecordCtor, RealFn, Builtin)):
            return v
        if isinstance(v, (tuple,)):
            return tuple(self.wrap_global(x) for x in v)
        if isinstance(v, pytypes.ModuleType):
            return v
        if isinstance(v, pytypes.FunctionType):
            if v.__qualname__ == "lazylist.<locals>.wrapped" and v.__closure__:
                # @lazylist only wraps the generator's result in LazyList (dropped by the extraction, DESIGN 9.1)
                inner = [c.cell_contents for c in v.__closure__ if isinstance(c.cell_contents, pytypes.FunctionType)]
                if len(inner) == 1:
                    return self.wrap_global(inner[0], name)
            mod = sys.modules.get(v.__module__)
            f = getattr(mod, "__file__", "") or ""
            if f.startswith(self.repo):
                rel = os.path.relpath(f, self.repo)
                key = f"{rel}::{v.__qualname__}"
                fn = self.find_function(key)
                if fn is not None:
                    return fn
            if v.__name__ in self.ufns:
                return self.ufns[v.__name__]
            return OpaqueFn(v)
        if isinstance(v, type):
            if v is collections.deque:
                return Builtin("deque")
            if v.__name__ in self.records:
                return self.records[v.__name__]
            if v in (int, str, bool, list, tuple):
                return Builtin(v.__name__)
            return v
        if isinstance(v, (list, dict)):
            return v if isinstance(v, dict) else tuple(self.wrap_global(x) for x in v)
        if callable(v) and getattr(v, "__name__", None) in self.BUILTINS:
            return Builtin(v.__name__)
        return OpaqueValue(v)

    # ------------------------------------------------------------------ clause parsing
    def parse_clause(self, text):
        if text not in self.clause_cache:
            self.clause_cache[text] = ast.parse(text.strip(), mode="eval").body
        return self.clause_cache[text]

    # ------------------------------------------------------------------ misc hooks (overridable per property)
    def isinstance(self, ex, v, cls):
        if isinstance(cls, tuple):
            r = False
            for c in cls:
                r = ex.or_(r, self.isinstance(ex, v, c))
            return r
        if isinstance(v, SV):
            k = v.ty.kind
            table = {"int": int, "bool": bool, "str": str, "char": str}
            if k in table:
                pc = table[k]
                target = cls if isinstance(cls, type) else {"int": int, "str": str, "bool": bool, "list": list}.get(getattr(cls, "name", None))
                if target is None:
                    return False
                return issubclass(pc, target)
            if k == "rec" and isinstance(cls, RecordCtor):
                return cls.ty == v.ty
            if k == "seq":
                target = cls if isinstance(cls, type) else {"list": list}.get(getattr(cls, "name", None))
                return target is list
            if k == "val":
                return self.val_isinstance(ex, v, cls)
        if isinstance(v, PySlice):
            return cls is slice
        if isinstance(v, Ref):
            c = ex.p.cell(v)
            if isinstance(c, ListCell):
                target = cls if isinstance(cls, type) else {"list": list}.get(getattr(cls, "name", None))
                return target is list
            if isinstance(c, ObjCell):
                return getattr(cls, "__name__", None) == c.cls
        if isinstance(cls, Builtin):
            cls = {"int": int, "str": str, "bool": bool, "list": list, "tuple": tuple}[cls.name]
        if isinstance(cls, type) and not isinstance(v, (SV, Ref)):
            return isinstance(v, cls)
        raise OutOfSubset(f"isinstance({v!r}, {cls!r})")

    def val_isinstance(self, ex, v, cls):
        # the class of an opaque value: an uninterpreted predicate per class (the same test gives the same answer)
        name = re.sub(r"\W", "_", getattr(cls, "__name__", None) or getattr(cls, "name", None) or "x")
        return SV(z3.Function("isinstance_" + name, v.ty.sort(), z3.BoolSort())(v.z), BOOL)

    def type_of(self, ex, v):
        from .state import Ref, ListCell

        if isinstance(v, Ref) and isinstance(ex.p.cell(v), ListCell):
            return list  # the class object: `type(x) is list` / `is str` are then decided by CPython identity
        if isinstance(v, SV) and v.ty.kind in ("int", "str", "bool"):
            return {"int": int, "str": str, "bool": bool}[v.ty.kind]
        if isinstance(v, SV) and v.ty.kind == "val" and hasattr(ex, "to_val"):
            return TypeOfVal(v)  # template mode: the class of an opaque value, only ever compared with class objects
        raise OutOfSubset("type()")

    def py_repr(self, v, ex):
        if isinstance(v, (int, str)):
            return repr(v)
        raise OutOfSubset("repr of a symbolic value")

    def sink(self, ex, name, args, node):
        if self.sink_handler is not None:
            return self.sink_handler(ex, name, args, node)
        raise OutOfSubset(f"call of sink {name}")

    def rev_fn(self, sv):
        key = repr(sv.ty)
        if key not in self._rev:
            self._rev[key] = z3.Function("rev_" + str(len(self._rev)), sv.ty.sort(), sv.ty.sort())
        return self._rev[key]

    def rev_axioms(self, ex, sv):
        """defining facts of reversal instantiated at this term: length, and pointwise
        elements through a skolem-free characterisation at the ends."""
        f = self.rev_fn(sv)
        r = f(sv.z)
        n = z3.Length(sv.z)
        ex.p.assume(z3.Length(r) == n)
        ex.p.assume(z3.Implies(n == 0, r == sv.z))
        # rev(s) = [last] ++ rev(s[:-1])   (one unfolding)
        last = z3.SubSeq(sv.z, n - 1, 1)
        init = z3.SubSeq(sv.z, 0, n - 1)
        ex.p.assume(z3.Implies(n > 0, r == z3.Concat(last, f(init))))
        ex.p.assume(z3.Length(f(init)) == z3.Length(init))
        # rev(a ++ [x]) form is the same statement; rev(rev(s)) == s is proved as lemma where needed
        self.used_assumption("s[::-1] is encoded by the uninterpreted function rev with its defining recursion rev(s)=[s[-1]]++rev(s[:-1]), instantiated at the slicing site")

    def char_pred(self, name):
        if name not in self._charpred:
            self._charpred[name] = z3.Function("str_" + name, z3.StringSort(), z3.BoolSort())
            self.used_assumption(f"str.{name} is an uninterpreted predicate")
        return self._charpred[name]

    def replace_all(self, ex, s, a, b):
        return z3.Const  # placeholder overwritten in strings.py

    def callee_modifies(self, body, fr, ex):
        """roots (expression texts) that calls inside `body` may modify, from callee contracts"""
        roots = set()
        for st in body:
            for x in ast.walk(st):
                if not isinstance(x, ast.Call):
                    continue
                fname = None
                if isinstance(x.func, ast.Name):
                    fname = x.func.id
                elif isinstance(x.func, ast.Attribute):
                    fname = x.func.attr
                if fname in ("next", "len", "list", "bool") and x.args:
                    r = _root_text(x.args[0])
                    if r:
                        roots.add(r)
                    continue
                # any repo function / method called with a heap root argument: use its modifies
                for c in self.contracts.values():
                    if c.target.split("::")[1].split(".")[-1] == fname:
                        fn = self.find_function(c.target)
                        if fn is None:
                            continue
                        params = [a.arg for a in fn.node.args.args]
                        actuals = list(x.args)
                        if isinstance(x.func, ast.Attribute) and fn.cls:
                            actuals = [x.func.value] + actuals
                        amap = dict(zip(params, actuals))
                        for kw in x.keywords:
                            amap[kw.arg] = kw.value
                        for m in c.modifies:
                            root = m.split(".")[0].split("[")[0]
                            if root in amap:
                                r = _root_text(amap[root])
                                if r:
                                    rest = m[len(root):]
                                    roots.add(r + rest if rest and not rest.startswith("[") else r)
        return roots

    def contract_for_closure(self, clo):
        owner = getattr(clo, "owner_contract", None)
        return owner

    def closure_yield_type(self, clo):
        oc = getattr(clo, "owner_contract", None)
        if oc is not None and oc.yields is not None:
            return oc.yields
        return VAL

    def closure_attr_store(self, ex, clo, attr, v, node):
        raise OutOfSubset("attribute store on a function value")


class TypeOfVal:
    """type(x) of an opaque value x: `type(x) is C`, `type(x) == C`, `type(x) in (C, D)` become the uninterpreted
    predicate exact_type_C(x) (the same test on the same value gives the same answer; distinct classes exclude each other
    only as far as a proof needs it, which none does)"""

    def __init__(self, v):
        self.v = v


class OpaqueFn:
    def __init__(self, fn):
        self.fn = fn
        self.name = fn.__name__

    def __repr__(self):
        return f"<opaque fn {self.name}>"


class OpaqueValue:
    def __init__(self, v):
        self.v = v

    def __repr__(self):
        return f"<opaque {type(self.v).__name__}>"
