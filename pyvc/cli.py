"""check <Cxx> [--tier quick|thorough] [--replay file] [--update-lock]

exit 0 held / 1 VIOLATION / 2 undecided or contract stale / 3 checker error"""
from __future__ import annotations

import argparse
import importlib
import json
import os
import re
import sys
import time
import traceback

ROOT = os.path.dirname(os.path.dirname(os.path.abspath(__file__)))
# the seeded-change matrix runs checks against a scratch copy of the repository (VERIF_REPO) and must not
# overwrite the evidence of the real tree: it redirects both output directories
EVIDENCE_DIR = os.environ.get("VERIF_EVIDENCE_DIR") or os.path.join(ROOT, "evidence")
REPLAY_ROOT = os.environ.get("VERIF_REPLAY_DIR") or os.path.join(ROOT, "replays")
REPO = os.environ.get("VERIF_REPO", "/repo")


def base_name(n):
    """obligation name without the path ordinal and without source line offsets (stable under
    edits that only move lines)"""
    return re.sub(r"@\+\d+", "", re.sub(r"/p\d+$", "", n))


def load_json(path, default):
    try:
        return json.load(open(path, encoding="utf-8"))
    except FileNotFoundError:
        return default


def safe(name):
    import hashlib

    return re.sub(r"[^A-Za-z0-9_.+#-]+", "_", name)[:120] + "-" + hashlib.sha1(name.encode()).hexdigest()[:8]


def guarded(fn, args, seconds, default):
    """run a native (CPython, real code) search in a forked child with a hard deadline: a changed
    tree may loop in ways a signal handler cannot interrupt"""
    from pyvc.solve import run_with_deadline

    ok, val = run_with_deadline(fn, args, seconds)
    if ok:
        return val
    print(f"note: native search {getattr(fn, '__name__', fn)} did not finish: {str(val).splitlines()[0][:200]}")
    return default


def replay(prop, a, seed, t0):
    """--replay <file>: run the recorded input against the current tree; a file without a native input (the verifier
    gave no counterexample that reproduces natively) names the failed obligation, which is decided again"""
    global EVIDENCE_DIR, REPLAY_ROOT
    import contextlib
    import io
    import tempfile

    d = load_json(a.replay, {})
    rc = prop.run_replay(a.replay)
    if rc == 1 or d.get("witness") and d.get("kind") != "ground":
        return rc
    name = d.get("obligation", "")
    print(f"no native input in {a.replay}: deciding obligation {name} again on the current tree")
    with tempfile.TemporaryDirectory() as tmp:
        EVIDENCE_DIR, REPLAY_ROOT = os.path.join(tmp, "evidence"), os.path.join(tmp, "replays")
        os.makedirs(EVIDENCE_DIR, exist_ok=True)
        buf = io.StringIO()
        with contextlib.redirect_stdout(buf):
            run(prop, a, seed, t0)
        want = safe(base_name(name)) if d.get("kind") not in ("ground", "bounded", "stale+bounded-search") else safe(name)
        hit = [ln for ln in buf.getvalue().splitlines() if ln.startswith("VIOLATION") and want in ln]
    for ln in hit:
        print(ln.split(" replay=")[0], "(obligation still fails)")
    if not hit:
        print("the obligation is discharged on the current tree")
    return 1 if hit else 0


def main(argv=None):
    ap = argparse.ArgumentParser()
    ap.add_argument("prop")
    ap.add_argument("--tier", default=os.environ.get("VERIF_TIER", "quick"))
    ap.add_argument("--replay")
    ap.add_argument("--update-lock", action="store_true")
    ap.add_argument("-v", action="store_true")
    a = ap.parse_args(argv)
    seed = int(os.environ.get("VERIF_SEED", "0") or 0)
    t0 = time.time()
    sys.path.insert(0, ROOT)
    if REPO not in sys.path:
        sys.path.insert(0, REPO)
    os.makedirs(EVIDENCE_DIR, exist_ok=True)
    try:
        mod = importlib.import_module("props." + a.prop)
        prop = mod.PROP
        if a.replay:
            return replay(prop, a, seed, t0)
        return run(prop, a, seed, t0)
    except SystemExit:
        raise
    except BaseException:
        traceback.print_exc()
        print(f"CHECKER-ERROR property={a.prop}")
        return 3


def run(prop, a, seed, t0):
    from pyvc.runner import generate_all, discharge

    W = prop.load()
    keys = prop.keys(W)
    fn_keys = [k for k in keys if k in W.contracts]
    lemma_keys = [k for k in keys if k in W.lemmas]
    an_keys = [k for k in keys if k in W.analyses]
    reports = generate_all(W, fn_keys + lemma_keys + an_keys)
    discharge(reports)
    lock = load_json(os.path.join(ROOT, "obligations.lock"), {})
    ledger = set(lock.get(prop.id, []))
    known = [k for k in load_json(os.path.join(ROOT, "known_findings.json"), {"findings": []})["findings"] if k["property"] == prop.id]
    open_known = [k for k in known if k.get("status", "open") == "open"]

    violations, undecided, stale, errors, known_hits = [], [], [], [], []
    slow = []
    n_ob = n_ok = 0
    by_kind, by_backend = {}, {}
    solver_time = 0.0
    samples = []
    assumptions = list(getattr(prop, "assumptions", []))
    functions = []
    for r in reports:
        functions.append(dict(key=r["key"], source_hash=r["source_hash"], paths=r["paths"], obligations=len(r["obligations"]), error=r["error"]))
        for x in r.get("assumptions", []):
            if x not in assumptions:
                assumptions.append(x)
        for n, d in r.get("derived", {}).items():
            x = f"{n} is derived mechanically from the comprehension `{d}`"
            if x not in assumptions:
                assumptions.append(x)
        if r["error"]:
            if r["error_kind"] in ("stale", "subset", "generator"):
                stale.append(r)
            else:
                errors.append(r)
            continue
        for o in r["obligations"]:
            if not prop.wants(o["name"]):
                continue  # an obligation of the shared analysis that belongs to another property
            res = o["result"]
            solver_time += res["time"]
            if o["kind"] == "cover":
                if not o["ok"] and res["result"] == "unknown":
                    print(f"note: cover {o['name']} undecided ({res['reason']})")
                elif not o["ok"]:
                    errors.append(dict(key=r["key"], error=f"vacuous precondition: cover {o['name']} is {res['result']}"))
                continue
            n_ob += 1
            by_kind[o["kind"]] = by_kind.get(o["kind"], 0) + 1
            if res["time"] > 4.0:
                slow.append((round(res["time"], 1), o["name"], res["backend"]))
            if o["ok"]:
                n_ok += 1
                by_backend[res["backend"]] = by_backend.get(res["backend"], 0) + 1
                if len(samples) < 4:
                    samples.append(dict(obligation=o["name"], kind=o["kind"], backend=res["backend"], smt2_bytes=len(o["smt2"]), time_s=round(res["time"], 3)))
                continue
            if res["result"] == "sat":
                violations.append((r, o, "refuted"))
            else:
                if base_name(o["name"]) in ledger:
                    violations.append((r, o, "regressed"))
                else:
                    undecided.append((r, o))
    # ground (finite, exhaustive) obligations
    grounds = guarded(prop.ground, (W, a.tier, seed), 600, None)
    if grounds is None:
        from props.base import Ground

        grounds = [Ground(f"{prop.id}/ground-obligations-evaluated", False, "the exhaustive evaluation did not finish within its deadline")]
    for g in grounds:
        n_ob += 1
        by_kind["ground"] = by_kind.get("ground", 0) + 1
        if g.ok:
            n_ok += 1
            by_backend["cpython-exhaustive"] = by_backend.get("cpython-exhaustive", 0) + 1
    bounded = guarded(prop.bounded, (W, a.tier, seed), 900 if a.tier != "thorough" else 7200, [])

    out_lines = []
    n_viol = 0
    suppressed = 0
    suppressed_bounded = 0
    replay_dir = os.path.join(REPLAY_ROOT, prop.id)

    def report_violation(name, payload, witness_text, found_input, counted=True):
        nonlocal n_viol, suppressed, suppressed_bounded
        for k in open_known:
            if re.search(k["match"], name + " :: " + witness_text):
                if k not in known_hits:
                    known_hits.append(k)
                if counted:
                    suppressed += 1
                else:
                    suppressed_bounded += 1
                return
        os.makedirs(replay_dir, exist_ok=True)
        path = os.path.join(replay_dir, safe(name) + ".json")
        json.dump(payload, open(path, "w", encoding="utf-8"), indent=1, ensure_ascii=False, default=str)
        rel = os.path.relpath(path, ROOT) if path.startswith(ROOT) else path
        line = f"VIOLATION property={prop.id} replay={rel}" + ("" if found_input else " no-failing-input-found")
        if line not in out_lines:
            out_lines.append(line)
        n_viol += 1

    replay_budget = time.time() + 360  # all native replays of one run share this budget
    for n_v, (r, o, why) in enumerate(violations):
        # replay the first few failed obligations natively (each in its own guarded child)
        left = replay_budget - time.time()
        witness = guarded(prop.replay, (W, r, o), min(120, left), None) if n_v < 6 and left > 10 else None
        payload = dict(property=prop.id, obligation=o["name"], kind=o["kind"], function=r["key"], where=o["where"], verdict=why, solver=o["result"], witness=witness,
                       how_to_replay=f"./check {prop.id} --replay <this file>")
        report_violation(base_name(o["name"]), payload, json.dumps(witness, ensure_ascii=False, default=str) if witness else "", witness is not None)
    for g in grounds:
        if not g.ok:
            payload = dict(property=prop.id, obligation=g.name, kind="ground", detail=g.detail, witness=g.witness)
            report_violation(g.name, payload, json.dumps(g.witness, ensure_ascii=False, default=str) + " " + g.detail, getattr(g, "native", g.witness is not None))
    for b in bounded:
        for f in b.get("failures", []):
            payload = dict(property=prop.id, obligation=b["name"], kind="bounded", witness=f)
            report_violation(b["name"], payload, json.dumps(f, ensure_ascii=False, default=str), True, counted=False)
    stale_unresolved = []
    for r in stale:
        witness = None
        if r["key"] in W.contracts:
            witness = guarded(prop.stale_search, (W, r["key"], seed), 300, None)
        if witness is not None:
            payload = dict(property=prop.id, obligation=r["key"] + "/contract", kind="stale+bounded-search", function=r["key"], error=r["error"], witness=witness)
            report_violation(r["key"] + "/contract", payload, json.dumps(witness, ensure_ascii=False, default=str), True)
        else:
            stale_unresolved.append(r)

    for k in known_hits:
        print(f"KNOWN-FINDING: property={prop.id} {k['what']}")
    for line in out_lines:
        print(line)
    for r, o in undecided:
        print(f"UNDECIDED property={prop.id} obligation={o['name']} ({o['result']['reason']})")
    for r in stale_unresolved:
        print(f"CONTRACT-STALE property={prop.id} function={r['key']}: {r['error'].splitlines()[0] if r['error'] else ''}")
    for e in errors:
        print(f"CHECKER-ERROR property={prop.id} {e.get('key')}: {e.get('error')}")

    # vacuity guard: obligation count must not shrink below the ledger
    if ledger and not a.update_lock:
        have = {base_name(o["name"]) for r in reports for o in r["obligations"]} | {g.name for g in grounds}
        missing = sorted(ledger - have)
        if missing and not stale:
            print(f"CONTRACT-STALE property={prop.id}: {len(missing)} obligations of the ledger were not generated, e.g. {missing[:3]}")
            stale_unresolved.append(dict(key="ledger", error="missing obligations"))
    if n_ob == 0:
        print(f"CHECKER-ERROR property={prop.id}: zero obligations generated")
        errors.append(dict(key="all", error="zero obligations"))

    if a.update_lock:
        lock[prop.id] = sorted({base_name(o["name"]) for r in reports for o in r["obligations"] if o["ok"] and o["kind"] != "cover" and prop.wants(o["name"])} | {g.name for g in grounds if g.ok})
        json.dump(lock, open(os.path.join(ROOT, "obligations.lock"), "w"), indent=0, sort_keys=True)

    ev = dict(
        property_id=prop.id,
        tier=a.tier if a.tier in ("quick", "thorough") else "quick",
        seed=seed,
        level=prop.level,
        coverage=dict(
            obligations=n_ob - suppressed,
            discharged=n_ok,
            checker_cmd=f"./check {prop.id} --tier {a.tier}",
            explanation=getattr(prop, "explanation", "obligations are generated from the real source on every run and discharged as listed in discharged_by_backend; bounded stand-ins are listed separately under `bounded` and never counted as discharged"),
            trusted_base=prop.trusted_base,
            obligations_by_kind=by_kind,
            discharged_by_backend=by_backend,
            solver_time_s=round(solver_time, 2),
            functions_under_contract=functions,
            lemmas=[k for k in lemma_keys],
            known_findings_suppressed=suppressed + suppressed_bounded,
            known_findings=[k["what"] for k in known_hits],
            bounded=[{k: v for k, v in b.items() if k != "failures"} for b in bounded],
            paper_steps=prop.paper_steps,
            samples=samples or [dict(obligation=g.name, kind="ground") for g in grounds[:3]],
            undecided=[o["name"] for _, o in undecided],
            slow_obligations=[dict(seconds=t, obligation=n, backend=b) for t, n, b in sorted(slow, reverse=True)[:10]],
            stale=[r["key"] for r in stale_unresolved],
        ),
        assumptions=assumptions,
        wall_s=round(time.time() - t0, 2),
        violations=n_viol,
    )
    json.dump(ev, open(os.path.join(EVIDENCE_DIR, prop.id + ".json"), "w", encoding="utf-8"), indent=1, ensure_ascii=False)
    if slow and a.v:
        for t, n, b in sorted(slow, reverse=True)[:10]:
            print(f"slow: {t}s {b} {n}")
    print(f"{prop.id}: obligations={n_ob} discharged={n_ok} known-finding-suppressed={suppressed} violations={n_viol} undecided={len(undecided)} stale={len(stale_unresolved)} wall={time.time()-t0:.1f}s")
    if errors:
        return 3
    if n_viol:
        return 1
    if undecided or stale_unresolved:
        return 2
    return 0


if __name__ == "__main__":
    sys.exit(main())
