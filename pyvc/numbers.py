"""Exact numbers for C07: a Vyxal number is a rational (z3 Real) together with its *representation kind*
(PyInt, SymInteger / SymRational = `sym`).  Python's `/` on two PyInts is float arithmetic: it has no
encoding here, so a contract clause that needs its exactness cannot be discharged (by construction)."""
from __future__ import annotations

import ast
import z3

from .sym import *  # noqa
from .state import *  # noqa
from .engine import *  # noqa
from .templates import TemplateExecutor, uf
from .world import OpaqueFn, OpaqueValue

RAT = Ty("rat")
RAT._sort = z3.RealSort()


class Num(SV):
    __slots__ = ("kind",)

    def __init__(self, z, kind):
        super().__init__(z, RAT)
        self.kind = kind  # "pyint" | "sym"

    def __repr__(self):
        return f"Num<{self.kind}:{self.z}>"


def floor_div(a, b):
    return z3.ToReal(z3.ToInt(a / b))


class NumExecutor(TemplateExecutor):
    def num(self, v):
        if isinstance(v, Num):
            return v
        if isinstance(v, bool):
            return None
        if isinstance(v, int):
            return Num(z3.RealVal(v), "pyint")
        return None

    def binop(self, op, a, b, node=None):
        x, y = self.num(a), self.num(b)
        if x is not None and y is not None:
            both_int = x.kind == "pyint" and y.kind == "pyint"
            if isinstance(op, ast.Add):
                return Num(x.z + y.z, "pyint" if both_int else "sym")
            if isinstance(op, ast.Sub):
                return Num(x.z - y.z, "pyint" if both_int else "sym")
            if isinstance(op, ast.Mult):
                return Num(x.z * y.z, "pyint" if both_int else "sym")
            if isinstance(op, ast.Div):
                if both_int:
                    raise OutOfSubset("int / int is float arithmetic: not modelled, exactness cannot be proved")
                self.oblige("div-nonzero", y.z != 0, node)
                self.w.used_assumption("sympy Integer / Rational arithmetic (+ - * / %, floor) is exact field arithmetic")
                return Num(x.z / y.z, "sym")
            if isinstance(op, ast.FloorDiv):
                if not both_int:
                    raise OutOfSubset("sympy's // on Integer / Rational operands is not assumed exact (it is not: -12 // (1/6) == -73)")
                self.oblige("div-nonzero", y.z != 0, node)
                return Num(floor_div(x.z, y.z), "pyint")
            if isinstance(op, ast.Mod):
                self.oblige("div-nonzero", y.z != 0, node)
                self.w.used_assumption("% on exact numbers is the floor-based remainder (Python ints; sympy Mod on rationals)")
                return Num(x.z - y.z * floor_div(x.z, y.z), "pyint" if both_int else "sym")
            raise OutOfSubset(f"operator {type(op).__name__} on numbers")
        return super().binop(op, a, b, node)

    def compare(self, op, a, b, node=None):
        x, y = self.num(a), self.num(b)
        if x is not None and y is not None:
            table = {ast.Eq: lambda: x.z == y.z, ast.NotEq: lambda: x.z != y.z, ast.Lt: lambda: x.z < y.z, ast.LtE: lambda: x.z <= y.z, ast.Gt: lambda: x.z > y.z, ast.GtE: lambda: x.z >= y.z}
            if type(op) in table:
                return SV(table[type(op)](), BOOL)
        return super().compare(op, a, b, node)

    def opaque_call(self, name, args, kwargs):
        nums = [a for a in args if isinstance(a, Num)]
        if name in ("sympify", "Rational", "nsimplify_rational") and len(nums) == 1:
            self.w.used_assumption("sympy.sympify / sympy.Rational of an exact number denotes the same number")
            return Num(nums[0].z, "sym")
        if name == "floor" and len(nums) == 1:
            self.w.used_assumption("sympy.floor of an exact rational is its mathematical floor")
            return Num(z3.ToReal(z3.ToInt(nums[0].z)), "sym")
        if name == "vyxalify" and len(nums) == 1:
            self.w.used_assumption("vyxalify maps sympy Integer to int and leaves exact rationals exact (nsimplify(rational=True))")
            return Num(nums[0].z, nums[0].kind)
        if nums:
            raise OutOfSubset(f"number passed to {name}, which has no exactness contract")
        return super().opaque_call(name, args, kwargs)

    def to_val(self, v):
        if isinstance(v, Num):
            return SV(uf("vnum", [z3.RealSort()], VAL_SORT)(v.z), VAL)
        return super().to_val(v)

    def truth(self, v):
        if isinstance(v, Num):
            return v.z != 0
        return super().truth(v)
