"""Driver: verify one repository function against its sidecar contract by path
enumeration; modular calls (callee contract, not body)."""
from __future__ import annotations

import ast
import time
import z3

from .sym import *  # noqa
from .state import *  # noqa
from .engine import *  # noqa
from .engine import _Return, _Break, _Continue, _Raise, _Unbound
from .engine2 import GenResult
from .engine3 import ExecFull, _ChainEnv
from .world import Contract, ObjSpec, ListOf, IterOf, OpaqueFn, OpaqueValue


class Executor(ExecFull):
    # ------------------------------------------------------------------ making symbolic inputs
    def make_param(self, name, decl):
        if isinstance(decl, Ty):
            v = named(name, decl)
            if decl.kind == "enum":
                self.p.assume(z3.And(v.z >= 0, v.z < len(list(decl.pycls))))
            if decl.kind == "char":
                self.p.assume(z3.Length(v.z) == 1)
            return v
        if isinstance(decl, ListOf):
            return self.new_list(sv=named(name, SEQ(decl.elem)))
        if isinstance(decl, IterOf):
            seq = named(name + "_src", SEQ(decl.elem))
            pos = z3.Const(name + "_pos", z3.IntSort())
            self.p.assume(z3.And(pos >= 0, pos <= z3.Length(seq.z)))
            return self.p.alloc(IterCell(seq, pos))
        if isinstance(decl, ObjSpec):
            fields = {f: self.make_param(f"{name}.{f}", d) for f, d in decl.fields.items()}
            return self.p.alloc(ObjCell(decl.cls, fields))
        if isinstance(decl, tuple) and decl and decl[0] == "const":
            return decl[1]
        if callable(decl):
            return decl(self, name)
        raise OutOfSubset(f"bad parameter declaration for {name}: {decl!r}")

    def snapshot(self, v, seen=None):
        """immutable snapshot of the heap reachable from v (for old() and frames)"""
        if isinstance(v, Ref):
            c = self.p.cell(v)
            if isinstance(c, ListCell):
                if c.items is not None:
                    return ("list", [self.snapshot(x) for x in c.items])
                return c.sv
            if isinstance(c, IterCell):
                return ("iter", c.seq, c.pos)
            if isinstance(c, ObjCell):
                return ("obj", {f: self.snapshot(x) for f, x in c.fields.items()})
        return v

    def same(self, a, b):
        """z3 Bool: snapshots a and b denote the same value"""
        if isinstance(a, SV) and isinstance(b, SV):
            return a.z == b.z
        if isinstance(a, tuple) and isinstance(b, tuple) and a and b and a[0] == b[0]:
            if a[0] == "list":
                if len(a[1]) != len(b[1]):
                    return z3.BoolVal(False)
                return z3.And([self.same(x, y) for x, y in zip(a[1], b[1])] + [z3.BoolVal(True)])
            if a[0] == "iter":
                return z3.And(a[1].z == b[1].z, a[2] == b[2])
            if a[0] == "obj":
                return z3.And([self.same(a[1][f], b[1][f]) for f in a[1] if f in b[1]] + [z3.BoolVal(True)])
        if isinstance(a, SV) or isinstance(b, SV) or (isinstance(a, tuple) and a and a[0] == "list") or (isinstance(b, tuple) and b and b[0] == "list"):
            try:
                x = self.snap_sv(a)
                y = self.snap_sv(b, x.ty)
                return x.z == y.z
            except OutOfSubset:
                return z3.BoolVal(False)
        return z3.BoolVal(a is b or a == b)

    def snap_sv(self, a, ty=None):
        if isinstance(a, SV):
            return a
        if isinstance(a, tuple) and a and a[0] == "list":
            return lift([self.snap_sv(x) if isinstance(x, tuple) else x for x in a[1]], ty)
        return lift(a, ty)

    # ------------------------------------------------------------------ calls
    def call_function(self, fn, args, kwargs, node, fr, consume_all=False, interleaved=False):
        if isinstance(fn, OpaqueFn):
            raise NeedsContract(f"call of library function {fn.name} at {self.where(node)}")
        c = self.w.contracts.get(fn.key)
        self.w.stats["calls"] += 1
        if c is None:
            raise NeedsContract(f"{fn.key} (called at {self.where(node)}) has no contract")
        if c.inline:
            return self.inline_call(fn, c, args, kwargs, node)
        return self.modular_call(fn, c, args, kwargs, node)

    def inline_call(self, fn, c, args, kwargs, node):
        if self.call_depth > 6:
            raise OutOfSubset("inline recursion depth")
        env = self.bind_args(fn.node, args, kwargs, {}, fn.globals)
        fr = Frame(env, fn.globals, fn.name, contract=c)
        is_gen = _is_generator(fn.node)
        if is_gen:
            ety = c.yields or VAL
            fr.yielded = SV(z3.Empty(SEQ(ety).sort()), SEQ(ety))
            fr.env["_yielded"] = fr.yielded
        saved, saved_l0 = self.prefix, self.line0
        self.prefix = f"{saved}>{fn.name}"
        self.line0 = fn.node.lineno
        self.call_depth += 1
        try:
            self.exec_block(fn.node.body, fr)
            r = None
        except _Return as ret:
            r = ret.value
        finally:
            self.prefix, self.line0 = saved, saved_l0
            self.call_depth -= 1
        if is_gen:
            return GenResult(fr.yielded)
        return r

    def contract_env(self, fn, c, args, kwargs):
        env = self.bind_args(fn.node, args, kwargs, {}, fn.globals)
        return env

    def modular_call(self, fn, c, args, kwargs, node):
        env = self.contract_env(fn, c, args, kwargs)
        fr = Frame(env, fn.globals, "contract:" + fn.name)
        for g, ty in c.ghost.items():
            fr.env[g] = self.ghost_value(c, g, ty, fr)
        for nm, text in c.lets.items():
            fr.env[nm] = self.eval_value_clause(text, fr)
        # 1. precondition at the call site
        for i, r in enumerate(c.requires):
            self.oblige("pre", self.eval_clause(r, fr), node, tag=f"[{fn.name}#{i}]")
            self.p.assume(self.eval_clause(r, fr))
        # 2. exceptional exits
        for exc, spec in c.raises.items():
            when = self.eval_clause(spec["when"], fr)
            if self.p.fork(when):
                self.apply_modifies(c, spec.get("modifies", []), fr)
                for e in spec.get("ensures", []):
                    self.p.assume(self.eval_clause(e, fr))
                raise _Raise(exc)
        # 3. havoc the frame, assume the postcondition
        self.apply_modifies(c, c.modifies, fr)
        res = None
        if c.result is not None:
            if callable(c.result) and not isinstance(c.result, (Ty, ListOf, IterOf, ObjSpec)):
                res = c.result(self, fr.env)  # result shape depends on the arguments
            else:
                res = self.make_result(fn.name, c.result)
            fr.env["result"] = res
        for e in c.ensures:
            self.p.assume(self.eval_clause(e, fr))
        if c.trusted:
            self.w.used_assumption(f"assumed contract of {c.target}: {c.note or 'trusted'}")
        return res

    def make_result(self, name, decl):
        if isinstance(decl, Ty):
            v = fresh("res_" + name, decl)
            if decl.kind == "char":
                self.p.assume(z3.Length(v.z) == 1)
            return v
        if isinstance(decl, ListOf):
            return self.new_list(sv=fresh("res_" + name, SEQ(decl.elem)))
        return self.make_param(fresh_name("res_" + name), decl)

    def ghost_value(self, c, g, ty, fr):
        return fresh(g, ty)

    def eval_value_clause(self, text, fr):
        node = self.w.parse_clause(text)
        self.spec_mode += 1
        try:
            v = self.eval(node, fr)
        finally:
            self.spec_mode -= 1
        return self.snapshot_value(v)

    def snapshot_value(self, v):
        if isinstance(v, Ref) and isinstance(self.p.cell(v), ListCell):
            return self.to_sv(v)
        return v

    def apply_modifies(self, c, modifies, fr):
        for m in modifies:
            node = self.w.parse_clause(m)
            v = self.eval(node, fr)
            if isinstance(v, Ref):
                self.havoc_heap(v, m, deep=True)
            elif isinstance(node, ast.Attribute):
                base = self.eval(node.value, fr)
                if isinstance(base, Ref) and isinstance(self.p.cell(base), ObjCell):
                    cur = self.p.cell(base).fields[node.attr]
                    self.p.cell(base).fields[node.attr] = self.havoc_value(cur, m)
            else:
                raise OutOfSubset(f"modifies clause {m} does not denote a heap place")


def _is_generator(fnode):
    """does the function itself (not a function nested in it) contain a yield?"""
    stack = list(fnode.body)
    while stack:
        x = stack.pop()
        if isinstance(x, (ast.Yield, ast.YieldFrom)):
            return True
        if isinstance(x, (ast.FunctionDef, ast.Lambda, ast.ClassDef)):
            continue
        stack.extend(ast.iter_child_nodes(x))
    return False


class FunctionReport:
    def __init__(self, key):
        self.key = key
        self.obligations = []
        self.paths = 0
        self.error = None
        self.error_kind = None
        self.wall = 0.0
        self.source_hash = None
        self.path_notes = []


def verify_function(world, key, max_paths=4000, executor_cls=Executor):
    """all obligations of `key` against its contract (no solving here)"""
    rep = FunctionReport(key)
    t0 = time.time()
    c = world.contracts[key]
    fn = world.find_function(key)
    if fn is None:
        rep.error, rep.error_kind = f"function {key} not found in the working tree", "stale"
        return rep
    rep.source_hash = world.source_hash(key)
    worklist = [[]]
    seen_names = {}
    try:
        while worklist:
            pre = worklist.pop()
            rep.paths += 1
            if rep.paths > max_paths:
                raise OutOfSubset("path limit")
            path = Path(pre, worklist)
            ex = executor_cls(path, world)
            ex.fuel = c.fuel
            ex.semantic_prune = c.semantic_prune
            ex.prefix = key.split("::")[1]
            ex.line0 = fn.node.lineno
            try:
                run_one_path(ex, world, fn, c)
            except PathEnd as e:
                rep.path_notes.append(str(e))
            for ob in path.obligations:
                # unique stable names: name + path ordinal for duplicates
                n = seen_names.get(ob.name, 0)
                seen_names[ob.name] = n + 1
                ob.name = f"{ob.name}/p{n}"
                ob.meta["fn"] = key
                rep.obligations.append(ob)
    except VCError as e:
        rep.error, rep.error_kind = f"{type(e).__name__}: {e}", "subset"
    rep.wall = time.time() - t0
    return rep


def run_one_path(ex, world, fn, c):
    p = ex.p
    a = fn.node.args
    names = [x.arg for x in a.posonlyargs + a.args + a.kwonlyargs]
    env = {}
    for nm in names:
        if nm not in c.params:
            raise OutOfSubset(f"contract of {fn.key} does not declare parameter {nm}")
        env[nm] = ex.make_param(nm, c.params[nm])
    fr = Frame(dict(env), fn.globals, fn.name, contract=c)
    from .engine3 import assigned_names

    fr.locals_declared = assigned_names([st for st in fn.node.body]) - set(env)
    for g, ty in c.ghost.items():
        fr.env[g] = ex.make_param(g, ty)
    for g, (ty, facts) in c.abstract_globals.items():
        live = fn.globals[g]
        fr.env[g] = ex.make_param(g, ty)
        for fact in facts:
            p.assume(ex.eval_clause(fact, fr))
            if not p.taken and not p.prescribed:
                from .concrete import clause_namespace, ceval

                ok = bool(ceval(fact, clause_namespace(world), {g: live}))
                p.obligations.append(Obligation(f"{ex.prefix}/ground-global[{g}: {fact}]", "ground", [], z3.BoolVal(ok), where="live module constant"))
    if c.setup:
        c.setup(ex, fr)
    for r in c.requires:
        p.assume(ex.eval_clause(r, fr))
    # cover: the precondition is inhabited
    if not p.taken and not p.prescribed:
        if c.witness is not None:
            from .concrete import clause_namespace, ceval

            ns = {**{k: v for k, v in fn.globals.items() if not k.startswith("__")}, **clause_namespace(world)}
            ns.update({g: fn.globals[g] for g in c.abstract_globals})
            ok = all(bool(ceval(r, ns, c.witness)) for r in c.requires)
            p.obligations.append(Obligation(f"{ex.prefix}/cover-pre[witness]", "cover", [], z3.BoolVal(ok), expect="sat"))
        else:
            p.obligations.append(Obligation(f"{ex.prefix}/cover-pre", "cover", list(p.pc), z3.BoolVal(True), expect="sat"))
    for nm, text in c.lets.items():
        fr.env[nm] = ex.eval_value_clause(text, fr)
    old = {nm: ex.snapshot(v) for nm, v in env.items()}
    when_at_entry = {exc: ex.eval_clause(spec["when"], fr) for exc, spec in c.raises.items()}
    is_gen = _is_generator(fn.node)
    if is_gen:
        ety = c.yields or VAL
        fr.yielded = SV(z3.Empty(SEQ(ety).sort()), SEQ(ety))
        fr.env["_yielded"] = fr.yielded
    # nested closures verified against the same contract object (loops keyed in c.loops by ordinal)
    result = None
    raised = None
    try:
        ex.exec_block(fn.node.body, fr)
    except _Return as r:
        result = r.value
    except _Raise as r:
        raised = r.exc
    except (_Break, _Continue):
        raise OutOfSubset("break/continue outside loop")
    post_env = _ChainEnv({}, fr.env)
    pfr = Frame(post_env, fn.globals, fn.name, contract=c)
    if raised is not None:
        spec = c.raises.get(raised)
        if spec is None:
            if c.may_raise is True or raised in c.may_raise:
                return
            ex.oblige("no-exception", z3.BoolVal(False), fn.node, tag=f"[{raised}]")
            return
        ex.oblige("raises-when", when_at_entry[raised], fn.node, tag=f"[{raised}]")
        for i, e in enumerate(spec.get("ensures", [])):
            ex.oblige("raises-post", ex.eval_clause(e, pfr), fn.node, tag=f"[{raised}#{i}]")
        check_frame(ex, c, spec.get("modifies", []), env, old, fn, fr)
        return
    for exc, spec in c.raises.items():
        # returning normally although the contract says it raises here
        ex.oblige("returns-when", z3.Not(when_at_entry[exc]), fn.node, tag=f"[{exc}]")
    if is_gen:
        result = GenResult(fr.yielded)
        post_env["result"] = fr.yielded
    else:
        post_env["result"] = result
    for h in c.hints:
        try:
            ex.eval_clause(h, pfr, hint=True)
        except (VCError, _Raise):
            pass  # a hint that does not apply on this path (e.g. names a local the path never bound)
    for i, cl in enumerate(c.asserts):
        z = ex.eval_clause(cl, pfr)
        ex.oblige("assert", z, fn.node, tag=f"#exit.{i}")
        ex.p.assume(z)
    for i, e in enumerate(c.ensures):
        nm = c.ensures_names[i] if c.ensures_names else str(i)
        ex.oblige("post", ex.eval_clause(e, pfr), fn.node, tag=f"#{nm}")
    check_frame(ex, c, c.modifies, env, old, fn, fr)


def _entry_frame(fr, env, fn, c):
    return fr


def check_frame(ex, c, modifies, env, old, fn, fr):
    """everything reachable from the parameters and not listed in `modifies` is unchanged"""
    if not c.frame_check:
        return
    mods = set(modifies)
    for nm, v in env.items():
        _frame_rec(ex, nm, v, old[nm], mods, fn)


def _frame_rec(ex, text, v, oldsnap, mods, fn):
    if text in mods:
        return
    if isinstance(v, Ref):
        cell = ex.p.cell(v)
        if isinstance(cell, ObjCell):
            for f, fv in cell.fields.items():
                _frame_rec(ex, f"{text}.{f}", fv, oldsnap[1].get(f) if isinstance(oldsnap, tuple) else None, mods, fn)
            return
        now = ex.snapshot(v)
        ex.oblige("frame", ex.same(now, oldsnap), fn.node, tag=f"[{text}]")
    elif isinstance(v, SV) and "." in text:
        # scalar field of an object parameter
        ex.oblige("frame", ex.same(v, oldsnap), fn.node, tag=f"[{text}]")
