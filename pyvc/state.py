"""Path state of the symbolic executor: heap cells, path condition, obligations,
the decision oracle that enumerates paths by re-execution."""
from __future__ import annotations

import z3

from .sym import *  # noqa


class Ref:
    """pointer to a heap cell (identity = aliasing)"""

    __slots__ = ("id",)
    _n = [0]

    def __init__(self):
        Ref._n[0] += 1
        self.id = Ref._n[0]

    def __repr__(self):
        return f"Ref#{self.id}"


class ListCell:
    """mutable list / deque.  Either concrete-length (items: python list of values)
    or symbolic (sv: SV of a seq type)."""

    def __init__(self, items=None, sv=None, elem=None):
        self.items, self.sv, self.elem = items, sv, elem

    def copy(self):
        return ListCell(None if self.items is None else list(self.items), self.sv, self.elem)


class ObjCell:
    def __init__(self, cls, fields):
        self.cls, self.fields = cls, fields

    def copy(self):
        return ObjCell(self.cls, dict(self.fields))


class IterCell:
    """iterator over an immutable sequence value; pos is a z3 Int"""

    def __init__(self, seq, pos):
        self.seq, self.pos = seq, pos

    def copy(self):
        return IterCell(self.seq, self.pos)


class Closure:
    def __init__(self, node, env, frame_globals, name=None, is_generator=False, lazylist=False, owner=None):
        self.node, self.env, self.globals = node, env, frame_globals
        self.name = name or getattr(node, "name", "<lambda>")
        self.is_generator, self.lazylist = is_generator, lazylist
        self.owner = owner


class SRange:
    def __init__(self, start, stop, step):
        self.start, self.stop, self.step = start, stop, step


class Obligation:
    def __init__(self, name, kind, assumptions, goal, where="", expect="unsat", meta=None):
        self.name, self.kind = name, kind
        self.assumptions, self.goal = list(assumptions), goal
        self.where, self.expect = where, expect
        self.meta = meta or {}

    def smt2(self):
        s = z3.Solver()
        for a in self.assumptions:
            s.add(a)
        if self.expect == "unsat":
            s.add(z3.Not(self.goal))
        else:  # cover: expect sat of assumptions & goal
            s.add(self.goal)
        return s.to_smt2()


FEAS_CACHE = {}


class PathEnd(Exception):
    """this path is finished (infeasible, cut at a loop back-edge, or raised)"""


class Path:
    """One execution path.  `prescribed` is the decision prefix to follow."""

    def __init__(self, prescribed, worklist, feas_timeout_ms=int(__import__('os').environ.get('VERIF_FEAS_MS', '600'))):
        self.prescribed = list(prescribed)
        self.taken = []
        self.worklist = worklist
        self.pc = []  # list of z3 Bool (assumptions)
        self.defs = set()  # indices of pc entries that are definitional
        self.known = {}
        self.pc_ids = set()
        self.heap = {}  # Ref.id -> cell
        self.obligations = []
        self.feas_timeout = feas_timeout_ms
        self.notes = []
        self.ghost = {}
        self._solver = None
        NONNEG.clear()
        reset_fresh()

    # ---- heap
    def alloc(self, cell):
        r = Ref()
        self.heap[r.id] = cell
        return r

    def cell(self, ref):
        return self.heap[ref.id]

    # ---- assumptions / obligations
    def assume(self, z, definitional=False):
        if z3.is_true(z):
            return
        note_nonneg(z)
        if z.get_id() in self.pc_ids:
            return
        self.pc_ids.add(z.get_id())
        self.note_known(z, True)
        self.pc.append(z)
        if definitional:
            self.defs.add(len(self.pc) - 1)

    def note_known(self, z, val):
        """syntactic facts: term id -> truth value on this path (used to prune spec macros)"""
        if z3.is_not(z):
            return self.note_known(z.arg(0), not val)
        if (z3.is_and(z) and val) or (z3.is_or(z) and not val):
            for c in z.children():
                self.note_known(c, val)
            return
        self.known[z.get_id()] = (val, z)  # keep the term alive: z3 reuses ids of collected terms

    def known_value(self, z):
        if z3.is_not(z):
            v = self.known_value(z.arg(0))
            return None if v is None else not v
        e = self.known.get(z.get_id())
        return None if e is None else e[0]

    def feasible(self, extra=None):
        """may the path continue?  definitional assumptions (unfoldings of spec functions)
        are left out: that only makes more paths look feasible, which is sound."""
        core = [a for i, a in enumerate(self.pc) if i not in self.defs]
        # fresh names are deterministic per path, so the re-executed prefix of a later path builds
        # the very same (hash-consed) terms: cache by term ids, keeping the terms alive
        key = (tuple(a.get_id() for a in core), None if extra is None else extra.get_id())
        hit = FEAS_CACHE.get(key)
        if hit is not None:
            return hit[0]
        s = z3.Solver()
        s.set("timeout", self.feas_timeout)
        for a in core:
            s.add(a)
        if extra is not None:
            s.add(extra)
        r = s.check() != z3.unsat
        FEAS_CACHE[key] = (r, core, extra)
        return r

    def oblige(self, name, kind, goal, where="", meta=None):
        g = goal if z3.is_expr(goal) else z3.BoolVal(bool(goal))
        if z3.is_true(z3.simplify(g)):
            self.obligations.append(Obligation(name, kind, [], z3.BoolVal(True), where, meta=meta))
            return
        # NB: the un-simplified term is kept: z3.simplify introduces internal symbols
        # (seq.nth_i / seq.nth_u) that cvc5 cannot read
        self.obligations.append(Obligation(name, kind, self.pc, g, where, meta=meta))

    # ---- decisions
    def decide(self, n_options, feas=None):
        """pick one of n options; explores the others on later re-executions.
        feas(i) -> bool tells whether option i is feasible (None: all)."""
        k = len(self.taken)
        if k < len(self.prescribed):
            c = self.prescribed[k]
            self.taken.append(c)
            return c
        options = [i for i in range(n_options) if feas is None or feas(i)]
        if not options:
            raise PathEnd("infeasible")
        c = options[0]
        for alt in options[1:]:
            self.worklist.append(self.taken + [alt])
        self.taken.append(c)
        return c

    def fork(self, cond_z):
        """branch on a z3 Bool; returns python bool and records it in the pc"""
        c = z3.simplify(cond_z)
        if z3.is_true(c):
            return True
        if z3.is_false(c):
            return False
        choice = self.decide(2, lambda i: self.feasible(c if i == 0 else z3.Not(c)))
        # NB: the original (un-simplified) term is recorded, so that the same test written in a
        # contract clause is recognised syntactically (simplify rewrites substr(s,0,1) to at(s,0))
        if choice == 0:
            self.assume(cond_z)
            return True
        self.assume(z3.Not(cond_z))
        return False
