"""Symbolic executor over the real source's `ast` (see DESIGN.md 2.2 for the subset)."""
from __future__ import annotations

import ast
import collections
import enum
import types as pytypes
import z3

from .sym import *  # noqa
from .state import *  # noqa


class _Return(Exception):
    def __init__(self, value):
        self.value = value


class _Break(Exception):
    pass


class _Continue(Exception):
    pass


class _Raise(Exception):
    def __init__(self, exc, msg=""):
        self.exc, self.msg = exc, msg


MUTATORS = {"append", "pop", "popleft", "appendleft", "extend", "insert", "remove", "clear", "sort", "reverse", "add", "update"}


class SpecFn:
    """A spec function: pure python source, applied symbolically as an
    uninterpreted function whose defining equation is unfolded with fuel."""

    def __init__(self, pyfn, arg_tys, res_ty, node, globs):
        self.pyfn, self.arg_tys, self.res_ty, self.node, self.globs = pyfn, arg_tys, res_ty, node, globs
        self.name = pyfn.__name__
        self.z = z3.Function("spec_" + self.name, *[t.sort() for t in arg_tys], res_ty.sort())
        # a spec function that does not call itself is a macro: always expanded, no fuel needed
        self.recursive = any(isinstance(x, ast.Name) and x.id == self.name for x in ast.walk(node))


class Frame:
    def __init__(self, env, globs, fn_name, contract=None):
        self.env, self.globals, self.fn_name, self.contract = env, globs, fn_name, contract
        self.loop_ordinal = 0
        self.loop_k = []  # stack of ghost iteration counters
        self.yielded = None  # SV seq for generators
        self.locals_declared = set()  # names assigned somewhere in the function (unbound until then)
        self.cellvars = {}


class Exec:
    """executes statements of one function on one Path"""

    def __init__(self, path, world, bounds_checks=True):
        self.p = path
        self.w = world  # World: contracts, specs, module loader
        self.bounds_checks = bounds_checks
        self.spec_mode = 0
        self.fuel = 1
        self.unfolded = set()
        self.prefix = ""
        self.line0 = 0
        self.semantic_prune = False
        self.call_depth = 0

    # ------------------------------------------------------------------ utilities
    def where(self, node):
        return f"{self.prefix}:{getattr(node, 'lineno', '?')}"

    def oblige(self, kind, goal, node=None, tag=""):
        if self.spec_mode:
            return
        name = f"{self.prefix}/{kind}{tag}@+{getattr(node, 'lineno', self.line0) - self.line0}"
        self.p.oblige(name, kind, goal, self.where(node) if node is not None else "")

    def truth(self, v):
        """python truthiness -> z3 Bool or python bool"""
        if isinstance(v, SV):
            k = v.ty.kind
            if k == "bool":
                return v.z
            if k in ("int", "enum"):
                return v.z != 0
            if k in ("str", "seq", "char"):
                return z3.Length(v.z) > 0
            if k == "val":
                return self.w.truthy(v.z)
            raise OutOfSubset(f"truthiness of {v.ty}")
        if isinstance(v, Ref):
            c = self.p.cell(v)
            if isinstance(c, ListCell):
                if c.items is not None:
                    return len(c.items) > 0
                return z3.Length(c.sv.z) > 0
            return True
        if isinstance(v, (Closure, SpecFn, SRange)):
            if isinstance(v, SRange):
                raise OutOfSubset("truthiness of range")
            return True
        return bool(v)

    def branch(self, v):
        t = self.truth(v)
        if isinstance(t, bool):
            return t
        if self.spec_mode:
            raise OutOfSubset("fork inside a spec function (use a conditional expression)")
        return self.p.fork(t)

    def to_sv(self, v, ty=None):
        """value -> immutable SV (reads list cells)"""
        if isinstance(v, Ref):
            c = self.p.cell(v)
            if isinstance(c, ListCell) and ty is not None and ty.kind == "val":
                return lift(self.to_sv(v, SEQ(VAL)), VAL)  # a list as an opaque Vyxal value
            if isinstance(c, ListCell):
                if c.items is not None:
                    if ty is None and c.elem is not None:
                        ty = SEQ(c.elem)
                    if ty is not None and ty.kind == "rec":
                        vals = [self.to_sv(x, ft) if isinstance(x, Ref) else x for x, (_, ft) in zip(c.items, ty.fields)]
                    else:
                        vals = [self.to_sv(x, elem_of(ty) if ty is not None else None) if isinstance(x, Ref) else x for x in c.items]
                    return lift(vals, ty)
                return lift(c.sv, ty)
            raise OutOfSubset("object used as a value")
        if type(v).__name__ == "GenResult" and getattr(v, "yielded", None) is not None and (ty is None or ty.kind == "seq"):
            return lift(v.yielded, ty)  # a generator run to completion: the sequence it yields (ghost)
        return lift(v, ty)

    def list_sv(self, ref, ty=None):
        """force a ListCell into symbolic mode and return its SV"""
        c = self.p.cell(ref)
        if c.items is not None:
            sv = self.to_sv(ref, ty)
            c.items, c.sv, c.elem = None, sv, elem_of(sv.ty)
        return c.sv

    def new_list(self, items=None, sv=None, elem=None):
        if sv is not None:
            return self.p.alloc(ListCell(None, sv, elem_of(sv.ty)))
        return self.p.alloc(ListCell(list(items or []), None, elem))

    # ------------------------------------------------------------------ expressions
    def eval(self, node, fr):
        m = getattr(self, "e_" + type(node).__name__, None)
        if m is None:
            raise OutOfSubset(f"expression {type(node).__name__} at {self.where(node)}")
        return m(node, fr)

    def e_Constant(self, n, fr):
        return n.value

    def e_Name(self, n, fr):
        if n.id in fr.env:
            v = fr.env[n.id]
            if isinstance(v, _Unbound):
                raise _Raise("UnboundLocalError")
            return v
        if n.id in fr.locals_declared:
            raise _Raise("UnboundLocalError")
        return self.w.global_value(n.id, fr.globals)

    def e_Attribute(self, n, fr):
        base = self.eval(n.value, fr)
        return self.getattr(base, n.attr, n)

    def getattr(self, base, attr, node=None):
        if isinstance(base, Ref):
            c = self.p.cell(base)
            if isinstance(c, ObjCell):
                if attr in c.fields:
                    return c.fields[attr]
                m = self.w.method(c.cls, attr)
                if m is not None:
                    return BoundMethod(base, m)
                raise OutOfSubset(f"object {c.cls} has no modelled field {attr}")
            return BoundMethod(base, attr)
        if isinstance(base, SV):
            if base.ty.kind == "rec":
                i = base.ty.field_index(attr)
                return SV(base.ty.acc(i)(base.z), base.ty.fields[i][1])
            return BoundMethod(base, attr)
        if isinstance(base, PyDict) and attr == "get":
            return PyDictGet(base)
        if isinstance(base, (str, tuple)) and not isinstance(base, enum.Enum):
            return BoundMethod(base, attr)
        if isinstance(base, View):
            return BoundMethod(base, attr)
        if isinstance(base, (pytypes.ModuleType, type)) or isinstance(base, enum.Enum):
            return self.w.wrap_global(getattr(base, attr))
        if isinstance(base, Closure):
            if attr == "__name__":
                return base.name
        if isinstance(base, PySlice) and attr in ("start", "stop", "step"):
            return getattr(base, attr)
        raise OutOfSubset(f"attribute {attr} of {type(base).__name__}")

    def e_JoinedStr(self, n, fr):
        out = ""
        for part in n.values:
            if isinstance(part, ast.Constant):
                piece = part.value
            else:
                v = self.eval(part.value, fr)
                if part.conversion == 114:  # !r
                    piece = self.w.py_repr(v, self)
                else:
                    piece = self.call_builtin("str", [v], {}, n, fr)
            out = self.binop(ast.Add(), out, piece, n)
        return out

    def e_Tuple(self, n, fr):
        return tuple(self.eval(e, fr) for e in n.elts)

    def e_List(self, n, fr):
        return self.new_list([self.eval(e, fr) for e in n.elts])

    def e_Dict(self, n, fr):
        keys = [self.eval(k, fr) for k in n.keys]
        vals = [self.eval(v, fr) for v in n.values]
        return PyDict(keys, vals)

    def e_Lambda(self, n, fr):
        return Closure(n, fr.env, fr.globals, name="<lambda>")

    def e_IfExp(self, n, fr):
        c = self.truth(self.eval(n.test, fr))
        if isinstance(c, bool):
            return self.eval(n.body if c else n.orelse, fr)
        if self.spec_mode:
            kv = self.p.known_value(c)
            if kv is None and self.semantic_prune:
                # ask the solver whether the path condition already decides the test
                if not self.p.feasible(c):
                    kv = False
                elif not self.p.feasible(z3.Not(c)):
                    kv = True
                if kv is not None:
                    self.p.note_known(c, kv)
            if kv is not None:  # the path already decided this test: expand only that side
                return self.eval(n.body if kv else n.orelse, fr)
            a = self.eval(n.body, fr)
            b = self.eval(n.orelse, fr)
            a2, b2 = self.unify(a, b)
            return SV(z3.If(c, a2.z, b2.z), a2.ty)
        return self.eval(n.body if self.p.fork(c) else n.orelse, fr)

    def is_empty_display(self, v):
        if isinstance(v, (list, tuple)) and len(v) == 0:
            return True
        if isinstance(v, Ref):
            c = self.p.cell(v)
            return isinstance(c, ListCell) and c.items is not None and len(c.items) == 0 and c.elem is None
        return False

    def unify(self, a, b):
        ea, eb = self.is_empty_display(a), self.is_empty_display(b)
        if ea and eb:
            raise OutOfSubset("cannot type two empty displays")
        if not ea:
            a = self.to_sv(a)
        if not eb:
            b = self.to_sv(b, a.ty if not ea and not isinstance(b, SV) else None)
        if ea:
            a = SV(z3.Empty(b.ty.sort()), b.ty)
        if eb:
            b = SV(z3.Empty(a.ty.sort()), a.ty)
        if a.ty != b.ty:
            if {a.ty.kind, b.ty.kind} <= {"str", "char"}:
                return SV(a.z, STR), SV(b.z, STR)
            b = lift(b, a.ty)
        return a, b

    def e_BoolOp(self, n, fr):
        is_and = isinstance(n.op, ast.And)
        if self.spec_mode:
            zs = []
            for e in n.values:
                t = self.truth(self.eval(e, fr))
                if not isinstance(t, bool):
                    kv = self.p.known_value(t)
                    if kv is not None:
                        t = kv
                if isinstance(t, bool):
                    if t != is_and:  # False in an `and` / True in an `or` decides it
                        return t
                    continue
                zs.append(t)
            if not zs:
                return is_and
            return SV(z3.And(*zs) if is_and else z3.Or(*zs), BOOL) if len(zs) > 1 else SV(zs[0], BOOL)
        v = None
        for e in n.values:
            v = self.eval(e, fr)
            t = self.branch(v)
            if is_and and not t:
                return v
            if not is_and and t:
                return v
        return v

    def e_UnaryOp(self, n, fr):
        v = self.eval(n.operand, fr)
        if isinstance(n.op, ast.Not):
            t = self.truth(v)
            return (not t) if isinstance(t, bool) else SV(z3.Not(t), BOOL)
        if isinstance(n.op, ast.USub):
            if isinstance(v, SV):
                return SV(-lift(v, INT).z, INT)
            return -v
        raise OutOfSubset("unary op")

    def e_BinOp(self, n, fr):
        return self.binop(n.op, self.eval(n.left, fr), self.eval(n.right, fr), n)

    def is_seq(self, v):
        return isinstance(v, Ref) and isinstance(self.p.cell(v), ListCell) or isinstance(v, SV) and v.ty.kind in ("seq", "str", "char") or isinstance(v, (str, list, tuple)) and not isinstance(v, enum.Enum)

    def binop(self, op, a, b, node=None):
        sym = isinstance(a, (SV, Ref)) or isinstance(b, (SV, Ref))
        if not sym:
            return _py_binop(op, a, b)
        if isinstance(op, ast.Add) and (self.is_seq(a) or self.is_seq(b)):
            if isinstance(a, Ref) or isinstance(b, Ref) or isinstance(a, (list, tuple)) or isinstance(b, (list, tuple)):
                # list + list -> new list
                if isinstance(a, Ref) and isinstance(b, Ref) and self.p.cell(a).items is not None and self.p.cell(b).items is not None:
                    return self.new_list(self.p.cell(a).items + self.p.cell(b).items)
                x, y = self.unify_seq(a, b)
                return self.new_list(sv=seq_concat(x, y))
            x, y = self.unify(a, b)
            return seq_concat(x, y)
        if isinstance(op, ast.Mult) and (isinstance(a, str) or isinstance(b, str)):
            s, k = (a, b) if isinstance(a, str) else (b, a)
            # "> " * flag  etc: only concrete string times symbolic bool/int when string is used opaque
            raise OutOfSubset("string repetition with a symbolic count")
        x, y = lift(self.to_sv(a), INT), lift(self.to_sv(b), INT)
        if isinstance(op, ast.Add):
            return SV(x.z + y.z, INT)
        if isinstance(op, ast.Sub):
            return SV(x.z - y.z, INT)
        if isinstance(op, ast.Mult):
            return SV(x.z * y.z, INT)
        if isinstance(op, ast.FloorDiv):
            self.oblige("div-nonzero", y.z != 0, node)
            return SV(py_floordiv(x.z, y.z), INT)
        if isinstance(op, ast.Mod):
            self.oblige("div-nonzero", y.z != 0, node)
            return SV(py_mod(x.z, y.z), INT)
        if isinstance(op, ast.Pow):
            cy = as_const(y.z)
            if cy is not None and 0 <= cy <= 8:
                r = z3.IntVal(1)
                for _ in range(cy):
                    r = r * x.z
                return SV(r, INT)
            return SV(self.w.pow_fn(x.z, y.z), INT)
        raise OutOfSubset(f"binary operator {type(op).__name__}")

    def unify_seq(self, a, b):
        ea, eb = self.is_empty_display(a), self.is_empty_display(b)
        if ea and eb:
            raise OutOfSubset("concatenation of two empty untyped lists")
        sa = sb = None
        if isinstance(a, SV):
            sa = a
        if isinstance(b, SV):
            sb = b
        if sa is None and not ea:
            try:
                sa = self.to_sv(a, sb.ty if sb is not None and sb.ty.kind in ("seq", "str") else None)
            except OutOfSubset:
                if eb or isinstance(b, SV):
                    raise
                sb = self.to_sv(b)
                sa = self.to_sv(a, sb.ty)
        if sb is None and not eb:
            sb = self.to_sv(b, sa.ty if sa is not None and sa.ty.kind in ("seq", "str") else None)
        if sa is None:
            sa = SV(z3.Empty(sb.ty.sort()), sb.ty) if ea else self.to_sv(a, sb.ty)
        if sb is None:
            sb = SV(z3.Empty(sa.ty.sort()), sa.ty)
        if sa.ty != sb.ty:
            if {sa.ty.kind, sb.ty.kind} <= {"str", "char"}:
                return SV(sa.z, STR), SV(sb.z, STR)
            sb = lift(sb, sa.ty)
        return sa, sb

    def e_Compare(self, n, fr):
        left = self.eval(n.left, fr)
        result = None
        for op, rn in zip(n.ops, n.comparators):
            right = self.eval(rn, fr)
            r = self.compare(op, left, right, n)
            if result is None:
                result = r
            else:
                result = self.and_(result, r)
            left = right
        return result

    def and_(self, a, b):
        if isinstance(a, bool) and isinstance(b, bool):
            return a and b
        az = z3.BoolVal(a) if isinstance(a, bool) else a.z
        bz = z3.BoolVal(b) if isinstance(b, bool) else b.z
        return SV(z3.And(az, bz), BOOL)

    def compare(self, op, a, b, node=None):
        if isinstance(op, (ast.Is, ast.IsNot)):
            neg = isinstance(op, ast.IsNot)
            if b is None or a is None:
                r = a is None and b is None
                if isinstance(a, SV) or isinstance(b, SV) or isinstance(a, Ref) or isinstance(b, Ref):
                    r = False
                return (not r) if neg else r
            if isinstance(a, Ref) and isinstance(b, Ref):
                r = a is b
                return (not r) if neg else r
            if isinstance(a, SV) or isinstance(b, SV):
                return self.compare(ast.NotEq() if neg else ast.Eq(), a, b, node)
            r = a is b
            return (not r) if neg else r
        if isinstance(op, (ast.In, ast.NotIn)):
            r = self.contains(b, a, node)
            if isinstance(op, ast.NotIn):
                return (not r) if isinstance(r, bool) else SV(z3.Not(r.z), BOOL)
            return r
        sym = isinstance(a, (SV, Ref)) or isinstance(b, (SV, Ref))
        if not sym:
            return _py_compare(op, a, b)
        if isinstance(op, (ast.Eq, ast.NotEq)):
            if a is None or b is None:
                r = False
                return (not r) if isinstance(op, ast.NotEq) else r
            try:
                x, y = self.unify_for_eq(a, b)
            except OutOfSubset:
                raise
            if x is None:
                if self.spec_mode:
                    raise OutOfSubset(f"ill-typed comparison in a contract clause: {a!r} == {b!r}")
                r = False
                return (not r) if isinstance(op, ast.NotEq) else r
            z = x.z == y.z
            return SV(z3.Not(z) if isinstance(op, ast.NotEq) else z, BOOL)
        x, y = lift(self.to_sv(a), INT), lift(self.to_sv(b), INT)
        z = {ast.Lt: lambda: x.z < y.z, ast.LtE: lambda: x.z <= y.z, ast.Gt: lambda: x.z > y.z, ast.GtE: lambda: x.z >= y.z}[type(op)]()
        return SV(z, BOOL)

    def unify_for_eq(self, a, b):
        if isinstance(a, Ref) and isinstance(self.p.cell(a), ObjCell) or isinstance(b, Ref) and isinstance(self.p.cell(b), ObjCell):
            raise OutOfSubset("== on objects")
        ea = isinstance(a, Ref) and self.p.cell(a).items == [] or (isinstance(a, (list, tuple)) and len(a) == 0)
        eb = isinstance(b, Ref) and self.p.cell(b).items == [] or (isinstance(b, (list, tuple)) and len(b) == 0)
        if ea and eb:
            return lift(True), lift(True)
        if ea or eb:
            other = self.to_sv(b if ea else a)
            if other.ty.kind not in ("seq", "str"):
                return None, None
            e = SV(z3.Empty(other.ty.sort()), other.ty)
            return (e, other) if ea else (other, e)
        x = self.to_sv(a)
        try:
            y = self.to_sv(b, x.ty) if not isinstance(b, SV) else b
        except OutOfSubset:
            return None, None
        if isinstance(b, SV) and not isinstance(a, SV):
            x = self.to_sv(a, b.ty)
        if x.ty != y.ty:
            kinds = {x.ty.kind, y.ty.kind}
            if kinds <= {"str", "char"} or kinds <= {"int", "enum"} or kinds <= {"int", "bool"}:
                if kinds == {"int", "bool"}:
                    return lift(x, INT), lift(y, INT)
                return x, SV(y.z, x.ty)
            return None, None  # different python types are never equal
        return x, y

    def contains(self, container, item, node=None):
        """python `item in container`"""
        if isinstance(container, PyDict):
            raise OutOfSubset("in on dict")
        if isinstance(container, (tuple, list, frozenset, set)):
            r = False
            for c in container:
                e = self.compare(ast.Eq(), item, c, node)
                r = self.or_(r, e)
            return r
        if isinstance(container, str) and not isinstance(item, SV):
            return item in container
        if isinstance(container, Ref) and self.p.cell(container).items is not None and not isinstance(self.p.cell(container), ObjCell):
            return self.contains(tuple(self.p.cell(container).items), item, node)
        c = self.to_sv(container)
        if c.ty.kind in ("str", "char"):
            it = lift(item, STR)
            return SV(z3.Contains(c.z, it.z), BOOL)
        it = lift(self.to_sv(item), elem_of(c.ty))
        return SV(z3.Contains(c.z, unit(it)), BOOL)

    def or_(self, a, b):
        if isinstance(a, bool) and isinstance(b, bool):
            return a or b
        if a is True or b is True:
            return True
        if a is False:
            return b
        if b is False:
            return a
        return SV(z3.Or(a.z, b.z), BOOL)

    # ---- subscripts
    def e_Subscript(self, n, fr):
        base = self.eval(n.value, fr)
        if isinstance(n.slice, ast.Slice):
            lo = None if n.slice.lower is None else self.eval(n.slice.lower, fr)
            hi = None if n.slice.upper is None else self.eval(n.slice.upper, fr)
            st = None if n.slice.step is None else self.eval(n.slice.step, fr)
            return self.slice(base, lo, hi, st, n)
        idx = self.eval(n.slice, fr)
        return self.index(base, idx, n)

    def slice(self, base, lo, hi, st, node=None):
        if isinstance(base, BoundMethod) or isinstance(base, Closure):
            raise OutOfSubset("slice of callable")
        if isinstance(base, Ref) and isinstance(self.p.cell(base), ObjCell):
            m = self.w.method(self.p.cell(base).cls, "__getitem__")
            return self.call_function(m, [base, PySlice(lo, hi, st)], {}, node, None)
        conc = all(x is None or isinstance(x, int) for x in (lo, hi, st))
        if isinstance(base, (str, tuple)) and conc:
            return base[lo:hi:st]
        if isinstance(base, Ref) and self.p.cell(base).items is not None and conc:
            return self.new_list(self.p.cell(base).items[lo:hi:st], elem=self.p.cell(base).elem)
        sv = self.to_sv(base)
        if st is not None and st != 1:
            if st == -1 and lo is None and hi is None:
                sp = self.w.rev_spec_for.get(repr(sv.ty))
                if sp is not None:
                    saved_fuel = self.fuel
                    self.fuel = max(saved_fuel, 2)  # s[::-1] in the code: unfold the reversal twice here
                    try:
                        r = self.apply_spec(self.w.specs[sp], [sv])
                    finally:
                        self.fuel = saved_fuel
                    if ("lemma_len_" + sp) in self.w.lemmas:  # |rev(s)| == |s|, proved separately by induction
                        from .lemmas import LemmaFn

                        LemmaFn(self.w.lemmas["lemma_len_" + sp]).apply(self, [sv], {})
                else:
                    r = SV(self.w.rev_fn(sv)(sv.z), sv.ty)
                    self.w.rev_axioms(self, sv)
            else:
                raise OutOfSubset("slice step")
        else:
            lz = None if lo is None else lift(lo, INT).z
            hz = None if hi is None else lift(hi, INT).z
            r = seq_slice(sv, lz, hz)
        if isinstance(base, Ref):
            return self.new_list(sv=r)
        return r

    def index(self, base, idx, node=None):
        if isinstance(base, PyDict):
            return base.lookup(self, idx, node)
        if isinstance(base, dict):
            if not isinstance(idx, (SV, Ref)):
                return self.w.wrap_global(base[idx])
            for k in base:  # symbolic key: one fork per key of the (module constant) dict
                if self.branch(self.compare(ast.Eq(), idx, k, node)):
                    return self.w.wrap_global(base[k])
            raise _Raise("KeyError")
        if isinstance(base, (str, tuple)) and isinstance(idx, int):
            return base[idx]
        if isinstance(base, View):
            base = base.read(self)
        if isinstance(base, Ref):
            c = self.p.cell(base)
            if isinstance(c, ObjCell):
                m = self.w.method(c.cls, "__getitem__")
                return self.call_function(m, [base, idx], {}, node, None)
            if c.items is not None and isinstance(idx, int):
                if not -len(c.items) <= idx < len(c.items):
                    self.oblige("bounds", z3.BoolVal(False), node)
                    raise PathEnd("IndexError")
                v = c.items[idx]
                return v
            sv = self.list_sv(base)
        else:
            sv = self.to_sv(base)
        if sv.ty.kind == "rec":
            if not isinstance(idx, int):
                raise OutOfSubset("record indexed by a symbolic index")
            return SV(sv.ty.acc(idx)(sv.z), sv.ty.fields[idx][1])
        n = seq_len(sv)
        i = lift(idx, INT).z
        if self.bounds_checks:
            self.oblige("bounds", z3.And(i < n, i >= -n), node)
            self.p.assume(z3.And(i < n, i >= -n)) if not self.spec_mode else None
        return seq_nth(sv, norm_index(i, n))

    # ---- calls
    def e_Call(self, n, fr):
        if isinstance(n.func, ast.Name) and n.func.id == "unfold" and self.spec_mode:
            # hint form unfold(f(args)): instantiate the defining equation of f at these arguments
            saved = self.fuel
            self.fuel = max(1, saved)
            try:
                return self.eval(n.args[0], fr)
            finally:
                self.fuel = saved
        # method calls on places need the un-evaluated receiver (write-back)
        if isinstance(n.func, ast.Attribute) and n.func.attr in MUTATORS | {"count", "copy", "index"}:
            place = self.place(n.func.value, fr, for_method=True)
            if place is not None:
                args = [self.eval(a, fr) for a in n.args]
                return self.list_method(place, n.func.attr, args, n, fr)
        fn = self.eval(n.func, fr)
        args = []
        for a in n.args:
            if isinstance(a, ast.Starred):
                v = self.eval(a.value, fr)
                if isinstance(v, Ref) and self.p.cell(v).items is not None:
                    args.extend(self.p.cell(v).items)
                elif isinstance(v, tuple):
                    args.extend(v)
                else:
                    args.extend(self.star_symbolic(v))
            else:
                args.append(self.eval(a, fr))
        kwargs = {k.arg: self.eval(k.value, fr) for k in n.keywords}
        return self.call(fn, args, kwargs, n, fr)

    def star_symbolic(self, v):
        raise OutOfSubset("*args of symbolic length")

    def call(self, fn, args, kwargs, node, fr):
        if isinstance(fn, BoundMethod):
            if isinstance(fn.method, str):
                return self.value_method(fn.recv, fn.method, args, kwargs, node, fr)
            return self.call_function(fn.method, [fn.recv] + args, kwargs, node, fr)
        if isinstance(fn, Builtin):
            return self.call_builtin(fn.name, args, kwargs, node, fr)
        if isinstance(fn, SpecFn):
            return self.apply_spec(fn, args)
        if isinstance(fn, Closure):
            return self.call_closure(fn, args, kwargs, node)
        if isinstance(fn, RealFn):
            return self.call_function(fn, args, kwargs, node, fr)
        if isinstance(fn, RecordCtor):
            return fn.construct(self, args, kwargs)
        if isinstance(fn, UFn):
            return fn.apply(self, args, kwargs)
        if hasattr(fn, "lemma"):
            return fn.apply(self, args, kwargs)
        if isinstance(fn, PyDictGet):
            return fn.dict.select(self, args[0], args[1] if len(args) > 1 else None, node)
        raise NeedsContract(f"call of {fn!r} at {self.where(node)}")

    # the remaining pieces (builtins, list methods, calls by contract, statements)
    # live in engine2.py and are mixed in there to keep files small.


class _Unbound:
    pass


class BoundMethod:
    def __init__(self, recv, method):
        self.recv, self.method = recv, method


class Builtin:
    def __init__(self, name):
        self.name = name

    def __eq__(self, o):
        return isinstance(o, Builtin) and o.name == self.name

    def __hash__(self):
        return hash(("builtin", self.name))

    def __repr__(self):
        return f"<builtin {self.name}>"


class RealFn:
    """a function of the repository, identified by key 'path::qualname'"""

    def __init__(self, key, node, globs, cls=None):
        self.key, self.node, self.globals, self.cls = key, node, globs, cls
        self.name = node.name

    def __repr__(self):
        return f"<repo fn {self.key}>"


class RecordCtor:
    def __init__(self, ty, argnames):
        self.ty, self.argnames = ty, argnames

    def construct(self, ex, args, kwargs):
        vals = list(args) + [kwargs[a] for a in self.argnames[len(args):]]
        return SV(self.ty.mk(*[lift(ex.to_sv(v, ft), ft).z for v, (_, ft) in zip(vals, self.ty.fields)]), self.ty)


class UFn:
    """uninterpreted pure function over Val etc. (assumed contract: pure, total)"""

    def __init__(self, name, arg_tys, res_ty, note=""):
        self.name, self.arg_tys, self.res_ty, self.note = name, arg_tys, res_ty, note
        self.z = z3.Function("uf_" + name, *[t.sort() for t in arg_tys], res_ty.sort())

    def apply(self, ex, args, kwargs):
        args = [a for a in args]
        zs = [lift(ex.to_sv(a), t).z for a, t in zip(args, self.arg_tys)]
        ex.w.used_assumption(f"{self.name} is a pure total function ({self.note})")
        return SV(self.z(*zs), self.res_ty)


class PySlice:
    def __init__(self, lo, hi, st):
        self.start, self.stop, self.step = lo, hi, st


class PyDict:
    """a dict display (the overload-table idiom)"""

    def __init__(self, keys, vals):
        self.keys, self.vals = keys, vals

    def select(self, ex, key, default, node):
        # later duplicate keys win -> test from last to first
        for k, v in reversed(list(zip(self.keys, self.vals))):
            c = ex.compare(ast.Eq(), key, k, node)
            if ex.branch(c):
                return v
        return default


class PyDictGet:
    def __init__(self, d):
        self.dict = d


class View:
    """place inside a nested list: parent place + index (write-back on mutation)"""

    def __init__(self, parent, idx):
        self.parent, self.idx = parent, idx

    def read(self, ex):
        return ex.index(self.parent.read(ex) if isinstance(self.parent, View) else self.parent, self.idx)

    def write(self, ex, value):
        ex.store_index(self.parent, self.idx, value, None)


def _py_binop(op, a, b):
    import operator as o

    table = {ast.Add: o.add, ast.Sub: o.sub, ast.Mult: o.mul, ast.FloorDiv: o.floordiv, ast.Mod: o.mod, ast.Pow: o.pow, ast.BitOr: o.or_, ast.BitAnd: o.and_}
    if type(op) not in table:
        raise OutOfSubset(f"operator {type(op).__name__}")
    return table[type(op)](a, b)


def _py_compare(op, a, b):
    import operator as o

    table = {ast.Eq: o.eq, ast.NotEq: o.ne, ast.Lt: o.lt, ast.LtE: o.le, ast.Gt: o.gt, ast.GtE: o.ge}
    return table[type(op)](a, b)
