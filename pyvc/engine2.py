"""Second half of the executor: places, list methods, builtins, string methods."""
from __future__ import annotations

import ast
import z3

from .sym import *  # noqa
from .state import *  # noqa
from .engine import *  # noqa
from .engine import _Return, _Break, _Continue, _Raise, _Unbound, MUTATORS


class ExecPlaces(Exec):
    # ------------------------------------------------------------------ places
    def place(self, node, fr, for_method=False):
        """evaluate an expression as a mutable place: Ref (list cell), or View"""
        if isinstance(node, ast.Subscript) and not isinstance(node.slice, ast.Slice):
            parent = self.place(node.value, fr, for_method=True)
            if parent is None:
                return None
            if isinstance(parent, Ref) and isinstance(self.p.cell(parent), ObjCell):
                return None
            idx = self.eval(node.slice, fr)
            # nested element of a concrete-mode list that is itself a Ref: direct alias
            if isinstance(parent, Ref):
                c = self.p.cell(parent)
                if c.items is not None and isinstance(idx, int) and -len(c.items) <= idx < len(c.items) and isinstance(c.items[idx], Ref):
                    return c.items[idx]
            return View(parent, idx)
        v = self.eval(node, fr)
        if isinstance(v, Ref) and isinstance(self.p.cell(v), (ListCell, ObjCell)):
            return v
        return None

    def read_place(self, place):
        if isinstance(place, View):
            return place.read(self)
        return place

    def store_index(self, parent, idx, value, node):
        """parent[idx] = value where parent is a Ref or View"""
        if isinstance(parent, View):
            cur = parent.read(self)
            new = self.updated(cur, idx, value, node)
            parent.write(self, new)
            return
        c = self.p.cell(parent)
        if isinstance(c, ObjCell):
            m = self.w.method(c.cls, "__setitem__")
            return self.call_function(m, [parent, idx, value], {}, node, None)
        if c.items is not None and isinstance(idx, int):
            if not -len(c.items) <= idx < len(c.items):
                self.oblige("bounds", z3.BoolVal(False), node)
                raise PathEnd("IndexError")
            c.items[idx] = value
            return
        sv = self.list_sv(parent)
        c.sv = self.updated(sv, idx, value, node)

    def updated(self, cur, idx, value, node):
        sv = self.to_sv(cur)
        if sv.ty.kind == "rec":
            zs = [sv.ty.acc(i)(sv.z) for i in range(len(sv.ty.fields))]
            zs[idx] = lift(self.to_sv(value), sv.ty.fields[idx][1]).z
            return SV(sv.ty.mk(*zs), sv.ty)
        n = seq_len(sv)
        i = lift(idx, INT).z
        self.oblige("bounds", z3.And(i < n, i >= -n), node)
        self.p.assume(z3.And(i < n, i >= -n))
        return seq_update(sv, norm_index(i, n), lift(self.to_sv(value), elem_of(sv.ty)))

    # ------------------------------------------------------------------ list methods
    def list_method(self, place, name, args, node, fr):
        if isinstance(place, View):
            cur = place.read(self)
            tmp = self.new_list(sv=self.to_sv(cur)) if not isinstance(cur, Ref) else cur
            r = self.list_method(tmp, name, args, node, fr)
            if name in MUTATORS and not isinstance(cur, Ref):
                place.write(self, self.list_sv(tmp))
            return r
        c = self.p.cell(place)
        if isinstance(c, ObjCell):
            m = self.w.method(c.cls, name)
            if m is None:
                raise OutOfSubset(f"method {name} on {c.cls}")
            return self.call_function(m, [place] + args, {}, node, fr)
        if not isinstance(c, ListCell):
            raise OutOfSubset(f"{name} on non-list")
        if name == "append":
            if len(args) != 1:
                raise _Raise("TypeError")
            (v,) = args
            if c.items is not None:
                c.items.append(v)
            else:
                c.sv = seq_concat(c.sv, SV(unit(lift(self.to_sv(v, c.elem), c.elem)), c.sv.ty))
            return None
        if name == "extend":
            (v,) = args
            return self.list_iadd(place, v, node)
        if name in ("pop", "popleft"):
            if args and name == "pop":
                raise OutOfSubset("list.pop(i)")
            if c.items is not None:
                if not c.items:
                    self.oblige("nonempty-pop", z3.BoolVal(False), node)
                    raise PathEnd("pop from empty")
                return c.items.pop() if name == "pop" else c.items.pop(0)
            n = seq_len(c.sv)
            if self.bounds_checks:
                self.oblige("nonempty-pop", n > 0, node)
            self.p.assume(n > 0)
            if name == "pop":
                v = seq_nth(c.sv, n - 1)
                c.sv = SV(z3.SubSeq(c.sv.z, z3.IntVal(0), n - 1), c.sv.ty)
            else:
                v = seq_nth(c.sv, z3.IntVal(0))
                c.sv = SV(z3.SubSeq(c.sv.z, z3.IntVal(1), n - 1), c.sv.ty)
            return v
        if name == "copy":
            return self.p.alloc(c.copy())
        if name == "count":
            raise OutOfSubset("list.count")
        if name == "clear":
            c.items, c.sv = [], None
            return None
        raise OutOfSubset(f"list method {name}")

    def list_iadd(self, ref, other, node):
        c = self.p.cell(ref)
        if isinstance(other, Ref) and self.p.cell(other).items is not None and c.items is not None:
            c.items.extend(self.p.cell(other).items)
            return None
        if isinstance(other, (tuple, list)) and c.items is not None:
            c.items.extend(other)
            return None
        if c.items == [] and c.elem is None:
            o = self.to_sv(other)
            c.items, c.sv, c.elem = None, SV(o.z, o.ty if o.ty.kind != "char" else STR), elem_of(o.ty) if o.ty.kind != "char" else CHAR
            return None
        sv = self.list_sv(ref)
        o = self.to_sv(other, sv.ty) if not isinstance(other, SV) else lift(other, sv.ty) if other.ty.kind != "char" else other
        # NB (DESIGN 2.2): `obj.f += e` evaluates e first, then extends the *current* cell
        c = self.p.cell(ref)
        c.sv = seq_concat(c.sv, o)
        return None

    # ------------------------------------------------------------------ methods on immutable values
    def value_method(self, recv, name, args, kwargs, node, fr):
        if isinstance(recv, View):
            recv = recv.read(self)
        if isinstance(recv, Ref):
            return self.list_method(recv, name, args, node, fr)
        if isinstance(recv, PyDict) or (isinstance(recv, BoundMethod)):
            raise OutOfSubset("method on dict")
        if isinstance(recv, str) and name == "format" and recv.count("{}") == len(args) and "{" not in recv.replace("{}", ""):
            pieces = recv.split("{}")
            out = pieces[0]
            for a, p in zip(args, pieces[1:]):
                out = self.binop(ast.Add(), self.binop(ast.Add(), out, self.call_builtin("str", [a], {}, node, fr), node), p, node)
            return out
        conc = not isinstance(recv, SV) and all(not isinstance(a, (SV, Ref)) for a in args)
        if conc and isinstance(recv, (str, tuple)):
            r = getattr(recv, name)(*args, **kwargs)
            if isinstance(r, list):
                return self.new_list(r)
            return r
        sv = self.to_sv(recv)
        if sv.ty.kind in ("str", "char"):
            return self.str_method(sv, name, args, node)
        if name == "count" and sv.ty.kind == "seq":
            raise OutOfSubset("seq.count")
        raise OutOfSubset(f"method {name} on {sv.ty}")

    def str_method(self, s, name, args, node):
        if name in ("find", "index"):
            sub = lift(args[0], STR)
            start = lift(args[1], INT).z if len(args) > 1 else z3.IntVal(0)
            r = z3.IndexOf(s.z, sub.z, start)
            if name == "index":
                self.oblige("str-index-found", r >= 0, node)
                self.p.assume(r >= 0)
            return SV(r, INT)
        if name == "startswith":
            return SV(z3.PrefixOf(lift(args[0], STR).z, s.z), BOOL)
        if name == "endswith":
            return SV(z3.SuffixOf(lift(args[0], STR).z, s.z), BOOL)
        if name == "replace":
            a, b = lift(args[0], STR), lift(args[1], STR)
            return SV(self.w.replace_all(self, s, a, b), STR)
        if name == "count":
            return SV(self.w.str_count(self, s, lift(args[0], STR)), INT)
        if name == "split":
            return self.w.str_split(self, s, lift(args[0], STR))
        if name == "join":
            return self.w.str_join(self, s, args[0])
        if name in ("isnumeric", "isupper", "islower", "isalpha", "isdigit"):
            return SV(self.w.char_pred(name)(s.z), BOOL)
        raise OutOfSubset(f"str.{name}")

    # ------------------------------------------------------------------ builtins
    def call_builtin(self, name, args, kwargs, node, fr):
        m = getattr(self, "b_" + name, None)
        if m is None:
            raise OutOfSubset(f"builtin {name}")
        return m(args, kwargs, node, fr)

    def b_len(self, args, kw, node, fr):
        (v,) = args
        if isinstance(v, View):
            v = v.read(self)
        if isinstance(v, (str, tuple)):
            return len(v)
        if isinstance(v, Ref):
            c = self.p.cell(v)
            if isinstance(c, ObjCell):
                m = self.w.method(c.cls, "__len__")
                return self.call_function(m, [v], {}, node, fr)
            if c.items is not None:
                return len(c.items)
            return SV(z3.Length(c.sv.z), INT)
        if isinstance(v, SRange):
            return SV(self.range_count(v), INT)
        return SV(z3.Length(self.to_sv(v).z), INT)

    def b_range(self, args, kw, node, fr):
        a = [x if isinstance(x, int) else lift(self.to_sv(x), INT).z for x in args]
        if len(a) == 1:
            return SRange(0, a[0], 1)
        if len(a) == 2:
            return SRange(a[0], a[1], 1)
        if not isinstance(a[2], int) or a[2] == 0:
            raise OutOfSubset("range with symbolic step")
        return SRange(a[0], a[1], a[2])

    def range_count(self, r):
        zi = lambda x: z3.IntVal(x) if isinstance(x, int) else x
        start, stop, step = zi(r.start), zi(r.stop), r.step
        if step > 0:
            d = stop - start
            cnt = d if step == 1 else (d + (step - 1)) / step
        else:
            d = start - stop
            cnt = d if step == -1 else (d + (-step - 1)) / (-step)
        return z3.simplify(zmax(cnt, z3.IntVal(0)))

    def b_min(self, args, kw, node, fr):
        return self._minmax(args, zmin, min)

    def b_max(self, args, kw, node, fr):
        return self._minmax(args, zmax, max)

    def _minmax(self, args, zf, pf):
        if len(args) == 1:
            v = args[0]
            if isinstance(v, tuple):
                args = list(v)
            elif isinstance(v, Ref) and self.p.cell(v).items is not None:
                args = list(self.p.cell(v).items)
            else:
                raise OutOfSubset("min/max of symbolic sequence")
        if all(isinstance(a, int) for a in args):
            return pf(args)
        r = lift(args[0], INT).z
        for a in args[1:]:
            r = zf(r, lift(a, INT).z)
        return SV(r, INT)

    def b_abs(self, args, kw, node, fr):
        (v,) = args
        if isinstance(v, int):
            return abs(v)
        z = lift(v, INT).z
        return SV(z3.If(z >= 0, z, -z), INT)

    def b_divmod(self, args, kw, node, fr):
        a, b = args
        return (self.binop(ast.FloorDiv(), a, b, node), self.binop(ast.Mod(), a, b, node))

    def b_int(self, args, kw, node, fr):
        (v,) = args[:1]
        if isinstance(v, (int, str)) and len(args) == 1:
            return int(v)
        sv = self.to_sv(v)
        if sv.ty.kind in ("int", "enum", "bool"):
            return lift(sv, INT)
        if sv.ty.kind in ("str", "char") and len(args) == 1:
            return SV(self.w.int_of_str(self, sv), INT)
        raise OutOfSubset("int() of this type")

    def b_bool(self, args, kw, node, fr):
        t = self.truth(args[0])
        return t if isinstance(t, bool) else SV(t, BOOL)

    def b_str(self, args, kw, node, fr):
        (v,) = args
        if isinstance(v, (int, str)) and not isinstance(v, bool):
            return str(v)
        sv = self.to_sv(v)
        if sv.ty.kind in ("str", "char"):
            return sv
        if sv.ty.kind == "int":
            return SV(self.w.str_of_int(self, sv), STR)
        raise OutOfSubset("str() of this type")

    def b_list(self, args, kw, node, fr):
        if not args:
            return self.new_list([])
        (v,) = args
        return self.iter_to_list(v, node, fr)

    def b_tuple(self, args, kw, node, fr):
        (v,) = args
        if isinstance(v, Ref) and self.p.cell(v).items is not None:
            return tuple(self.p.cell(v).items)
        raise OutOfSubset("tuple() of symbolic")

    def iter_to_list(self, v, node, fr):
        if isinstance(v, View):
            v = v.read(self)
        if isinstance(v, (str, tuple)):
            return self.new_list(list(v), elem=CHAR if isinstance(v, str) else None)
        if isinstance(v, Ref):
            c = self.p.cell(v)
            if isinstance(c, ListCell):
                return self.p.alloc(c.copy())
            if isinstance(c, IterCell):
                n = seq_len(c.seq)
                rest = seq_slice(c.seq, c.pos, None)
                c.pos = n
                return self.new_list(sv=rest)
            if isinstance(c, ObjCell):
                # list(obj): run its __iter__ by contract
                m = self.w.method(c.cls, "__iter__")
                got = self.call_function(m, [v], {}, node, fr, consume_all=True)
                return self.new_list(sv=self.to_sv(got))
        if isinstance(v, GenResult):
            return self.new_list(sv=v.yielded)
        if isinstance(v, SV) and v.ty.kind in ("seq", "str"):
            return self.new_list(sv=v)
        raise OutOfSubset("list() of this value")

    def b_deque(self, args, kw, node, fr):
        if not args:
            return self.new_list([])
        (v,) = args
        if isinstance(v, str):
            return self.new_list(sv=lift(v, STR))
        if isinstance(v, SV) and v.ty.kind in ("str", "seq"):
            return self.new_list(sv=v)
        return self.iter_to_list(v, node, fr)

    def b_iter(self, args, kw, node, fr):
        (v,) = args
        if isinstance(v, Ref) and isinstance(self.p.cell(v), IterCell):
            return v
        if isinstance(v, Ref) and isinstance(self.p.cell(v), ObjCell):
            raise OutOfSubset("iter(object)")
        sv = self.to_sv(v)
        return self.p.alloc(IterCell(sv, z3.IntVal(0)))

    def b_next(self, args, kw, node, fr):
        it = args[0]
        if isinstance(it, Ref) and isinstance(self.p.cell(it), ObjCell):
            m = self.w.method(self.p.cell(it).cls, "__next__")
            if len(args) > 1:
                raise OutOfSubset("next(obj, default)")
            return self.call_function(m, [it], {}, node, fr)
        if not (isinstance(it, Ref) and isinstance(self.p.cell(it), IterCell)):
            raise OutOfSubset("next() of a non-iterator")
        c = self.p.cell(it)
        n = seq_len(c.seq)
        if self.p.fork(c.pos < n):
            v = seq_nth(c.seq, c.pos)
            c.pos = z3.simplify(c.pos + 1)
            return v
        if len(args) > 1:
            return args[1]
        raise _Raise("StopIteration")

    def b_isinstance(self, args, kw, node, fr):
        v, cls = args
        return self.w.isinstance(self, v, cls)

    def b_type(self, args, kw, node, fr):
        return self.w.type_of(self, args[0])

    def b_all(self, args, kw, node, fr):
        (v,) = args
        items = self._concrete_items(v)
        r = True
        for x in items:
            t = self.truth(x)
            r = self.and_(r, t if isinstance(t, bool) else SV(t, BOOL))
        return r

    def b_any(self, args, kw, node, fr):
        (v,) = args
        items = self._concrete_items(v)
        r = False
        for x in items:
            t = self.truth(x)
            r = self.or_(r, t if isinstance(t, bool) else SV(t, BOOL))
        return r

    def _concrete_items(self, v):
        if isinstance(v, tuple):
            return list(v)
        if isinstance(v, Ref) and self.p.cell(v).items is not None:
            return list(self.p.cell(v).items)
        if isinstance(v, GenResult) and v.items is not None:
            return v.items
        raise OutOfSubset("all/any over a symbolic-length iterable")

    def b_chr(self, args, kw, node, fr):
        if isinstance(args[0], int):
            return chr(args[0])
        return SV(z3.StrFromCode(lift(args[0], INT).z), CHAR)

    def b_ord(self, args, kw, node, fr):
        if isinstance(args[0], str):
            return ord(args[0])
        return SV(z3.StrToCode(lift(args[0], STR).z), INT)

    def b_repr(self, args, kw, node, fr):
        return self.w.py_repr(args[0], self)

    def b_reversed(self, args, kw, node, fr):
        return self.slice(args[0], None, None, -1, node)

    def b_print(self, args, kw, node, fr):
        return self.w.sink(self, "print", args, node)

    def b_input(self, args, kw, node, fr):
        return self.w.sink(self, "input", args, node)

    def b_eval(self, args, kw, node, fr):
        return self.w.sink(self, "eval", args, node)

    def b_exec(self, args, kw, node, fr):
        return self.w.sink(self, "exec", args, node)


def _b_implies(self, args, kw, node, fr):
    a, b = [self.truth(x) for x in args]
    za = z3.BoolVal(a) if isinstance(a, bool) else a
    zb = z3.BoolVal(b) if isinstance(b, bool) else b
    return SV(z3.Implies(za, zb), BOOL)


def _quant(self, args, q):
    (clo,) = args
    names = [a.arg for a in clo.node.args.args]
    vs = [fresh(n, INT) for n in names]
    saved = self.spec_mode
    self.spec_mode += 1
    try:
        body = self.truth(self.call_closure(clo, vs, {}, None))
    finally:
        self.spec_mode = saved
    body = z3.BoolVal(body) if isinstance(body, bool) else body
    return SV(q([v.z for v in vs], body), BOOL)


def _b_it_src(self, args, kw, node, fr):
    """ghost: the whole sequence an iterator cell runs over"""
    c = self.p.cell(args[0])
    if not isinstance(c, IterCell):
        raise OutOfSubset("it_src of a non-iterator")
    return c.seq


def _b_it_pos(self, args, kw, node, fr):
    c = self.p.cell(args[0])
    if not isinstance(c, IterCell):
        raise OutOfSubset("it_pos of a non-iterator")
    return SV(c.pos, INT)


ExecPlaces.b_it_src = _b_it_src
ExecPlaces.b_it_pos = _b_it_pos
ExecPlaces.b_implies = _b_implies
ExecPlaces.b_forall_int = lambda self, args, kw, node, fr: _quant(self, args, z3.ForAll)
ExecPlaces.b_exists_int = lambda self, args, kw, node, fr: _quant(self, args, z3.Exists)


class GenResult:
    """result of running a generator to completion: the yielded sequence"""

    def __init__(self, yielded, items=None):
        self.yielded, self.items = yielded, items
