"""Generated code (the transpiler's templates) as code under contract: the template
text -- taken from the live element / modifier tables or emitted by the real
transpile() on probe programs -- is parsed and executed symbolically like any other
function.  Element functions without a contract are uninterpreted pure functions
over the opaque value sort (their own laws are other properties)."""
from __future__ import annotations

import ast
import re
import z3

from .sym import *  # noqa
from .state import *  # noqa
from .engine import *  # noqa
from .engine import _Return, _Break, _Continue, _Raise
from .verify import Executor, FunctionReport, check_frame
from .world import OpaqueFn, OpaqueValue

VUNLIST = z3.Function("vunlist", VAL_SORT, z3.SeqSort(VAL_SORT))
_UF = {}


def uf(name, arg_sorts, res_sort):
    key = (name, tuple(str(s) for s in arg_sorts), str(res_sort))
    if key not in _UF:
        _UF[key] = z3.Function(name, *arg_sorts, res_sort)
    return _UF[key]


class TemplateExecutor(Executor):
    """adds: opaque calls, attributes of opaque values, HOLE statements"""

    hole_contract = None  # callable(ex, fr, k) applied at HOLE_k

    def to_val(self, v):
        if isinstance(v, SV):
            if v.ty.kind == "val":
                return v
            if v.ty.kind == "bool":
                return SV(VINT(z3.If(v.z, 1, 0)), VAL)
            if v.ty.kind == "seq" and v.ty.elem.kind == "val":
                self.p.assume(VUNLIST(VLIST(v.z)) == v.z)  # a list value enumerates its items
                return SV(VLIST(v.z), VAL)
            return lift(v, VAL) if v.ty.kind in ("int", "str", "char") or (v.ty.kind == "seq" and v.ty.elem.kind == "val") else SV(self.box(v), VAL)
        if isinstance(v, Ref):
            c = self.p.cell(v)
            if isinstance(c, ListCell):
                if c.items is not None:
                    seq = lift([self.to_val(x) for x in c.items], SEQ(VAL)) if c.items else SV(z3.Empty(SEQ(VAL).sort()), SEQ(VAL))
                    self.p.assume(VUNLIST(VLIST(seq.z)) == seq.z)  # a list value enumerates its items
                    return lift(seq, VAL)
                if c.sv.ty == SEQ(VAL):
                    self.p.assume(VUNLIST(VLIST(c.sv.z)) == c.sv.z)  # a list value enumerates its items
                    return lift(c.sv, VAL)
                return SV(self.box(c.sv), VAL)
            return SV(z3.Const(f"obj#{v.id}", VAL_SORT), VAL)
        if isinstance(v, bool):
            return SV(VINT(z3.IntVal(int(v))), VAL)
        if isinstance(v, (int, str)):
            return lift(v, VAL)
        if v is None:
            return SV(z3.Const("py_None", VAL_SORT), VAL)
        if isinstance(v, StarArgs):
            return v.v
        if hasattr(v, "yielded") and getattr(v, "yielded", None) is not None:
            sv = v.yielded  # a generator run to completion: the list of what it yields
            self.p.assume(VUNLIST(VLIST(sv.z)) == sv.z)
            return SV(VLIST(sv.z), VAL)
        if isinstance(v, tuple):
            return lift(lift([self.to_val(x) for x in v], SEQ(VAL)) if v else SV(z3.Empty(SEQ(VAL).sort()), SEQ(VAL)), VAL)
        if isinstance(v, Closure):
            return SV(z3.Const(f"fn_{v.name}", VAL_SORT), VAL)
        if isinstance(v, SRange):  # range(a, b, c) as a value: determined by its three integers
            zs = [x if isinstance(x, z3.ExprRef) else (x.z if isinstance(x, SV) else z3.IntVal(int(x))) for x in (v.start, v.stop, v.step)]
            return SV(uf("range_value", [z3.IntSort()] * 3, VAL_SORT)(*zs), VAL)
        return SV(z3.Const(f"opaque_{type(v).__name__}_{abs(hash(repr(v))) % 10**8}", VAL_SORT), VAL)

    def box(self, sv):
        f = uf("box_" + re.sub(r"\W", "_", repr(sv.ty)), [sv.ty.sort()], VAL_SORT)
        return f(sv.z)

    def opaque_call(self, name, args, kwargs):
        vals = [self.to_val(a) for a in args if not self.is_ctx(a)]
        for k in sorted(kwargs):
            if k != "ctx" and not self.is_ctx(kwargs[k]):
                vals.append(self.to_val(kwargs[k]))
        if name == "LazyList" and len(vals) >= 1:
            # assumed contract of the LazyList constructor (the class itself is C13's subject)
            r = uf("app_LazyList", [VAL_SORT], VAL_SORT)(vals[0].z)
            self.p.assume(VUNLIST(r) == VUNLIST(vals[0].z))
            self.w.used_assumption("LazyList(source) enumerates exactly the items of source (assumed here; C13 verifies the class)")
            return SV(r, VAL)
        if name == "deep_copy" and len(vals) == 1:
            # assumed contract of helpers.deep_copy (its own obligations are C13): the copy enumerates the same items
            r = uf("app_deep_copy", [VAL_SORT], VAL_SORT)(vals[0].z)
            self.p.assume(VUNLIST(r) == VUNLIST(vals[0].z))
            self.w.used_assumption("helpers.deep_copy(v) enumerates the same items as v (assumed here; C13 is where it is checked)")
            return SV(r, VAL)
        f = uf("app_" + re.sub(r"\W", "_", name), [VAL_SORT] * len(vals), VAL_SORT)
        self.w.used_assumption("element / library functions without a contract are uninterpreted pure functions of their value arguments (they receive ctx; which of them reach ctx.stacks is a separate syntactic obligation)")
        self.w.stats["opaque:" + name] += 1
        return SV(f(*[v.z for v in vals]), VAL)

    def is_ctx(self, v):
        return isinstance(v, Ref) and isinstance(self.p.cell(v), ObjCell) and self.p.cell(v).cls == "Context"

    # ---- calls
    def call_function(self, fn, args, kwargs, node, fr, **kw):
        if isinstance(fn, OpaqueFn):
            return self.opaque_call(fn.name, args, kwargs)
        if fn.key not in self.w.contracts:
            return self.opaque_call(fn.name, args, kwargs)
        cur = getattr(fr, "contract", None) if fr is not None else None
        if cur is not None and fn.name in getattr(cur, "opaque_calls", []):
            return self.opaque_call(fn.name, args, kwargs)
        return super().call_function(fn, args, kwargs, node, fr, **kw)

    def contract_env(self, fn, c, args, kwargs):
        env = super().contract_env(fn, c, args, kwargs)
        for nm, decl in c.params.items():
            v = env.get(nm)
            if isinstance(decl, Ty) and decl.kind == "int" and isinstance(v, SV) and v.ty.kind == "val":
                z = uf("int_of_val", [VAL_SORT], z3.IntSort())(v.z)
                self.p.assume(z >= 0)
                self.w.used_assumption("a Vyxal value used as a count is a non-negative integer")
                env[nm] = SV(z, INT)
            if isinstance(decl, Ty) and decl.kind == "val" and v is not None and not isinstance(v, (SV, Ref)):
                env[nm] = self.to_val(v)  # e.g. a module-level function passed as the function argument
        return env

    def star_symbolic(self, v):
        return [StarArgs(self.to_val(v))]

    def to_sv(self, v, ty=None):
        if isinstance(v, (OpaqueValue, OpaqueFn, Closure, StarArgs)) or v is None or isinstance(v, type):
            return self.to_val(v)
        if ty is not None and ty.kind == "val" and isinstance(v, Ref) and isinstance(self.p.cell(v), ListCell):
            return self.to_val(v)  # boxing a list as a value (with the axiom that it enumerates its items)
        if isinstance(v, SV) and v.ty.kind == "val" and ty is not None and ty.kind == "seq" and ty.elem.kind == "val":
            return SV(VUNLIST(v.z), ty)
        if isinstance(v, Ref) and isinstance(self.p.cell(v), ListCell) and self.p.cell(v).items is not None and (ty is None or (ty.kind == "seq" and ty.elem.kind == "val")):
            items = self.p.cell(v).items
            if items and any(isinstance(x, (OpaqueValue, OpaqueFn, Closure, type)) or x is None for x in items):
                return lift([self.to_val(x) for x in items], SEQ(VAL))
        return super().to_sv(v, ty)

    def slice(self, base, lo, hi, st, node=None):
        if isinstance(base, SV) and base.ty.kind == "val":
            return self.opaque_call("slice", [base, lo, hi, st], {})
        return super().slice(base, lo, hi, st, node)

    def index(self, base, idx, node=None):
        if isinstance(base, SV) and base.ty.kind == "val":
            if isinstance(idx, int) and idx >= 0:
                return SV(VUNLIST(base.z)[idx], VAL)  # item idx of a list value
            return self.opaque_call("index", [base, idx], {})
        return super().index(base, idx, node)

    def call(self, fn, args, kwargs, node, fr):
        if isinstance(fn, OpaqueFn):
            return self.opaque_call(fn.name, args, kwargs)
        if isinstance(fn, (OpaqueValue, type)) or (isinstance(fn, SV) and fn.ty.kind == "val"):
            nm = getattr(fn, "__name__", None) or (type(fn.v).__name__ if isinstance(fn, OpaqueValue) else "callval")
            if isinstance(fn, SV):
                # calling a function value: it receives (and may pop from / push to) the lists it is given
                for a in args:
                    if isinstance(a, Ref) and isinstance(self.p.cell(a), ListCell):
                        self.list_sv(a, SEQ(VAL))
                        self.havoc_heap(a, "callee-stack")
                self.w.used_assumption("a called function value may change the stack list it receives arbitrarily and leaves the four bookkeeping lists balanced (induction hypothesis of C12)")
                args = [fn] + [a for a in args if not (isinstance(a, Ref) and isinstance(self.p.cell(a), ListCell))]
            return self.opaque_call(nm, args, kwargs)
        if isinstance(fn, Hole):
            return fn.apply(self, fr)
        if isinstance(fn, BoundMethod) and isinstance(fn.recv, (OpaqueValue,)):
            return self.opaque_call("m_" + str(fn.method), args, kwargs)
        return super().call(fn, args, kwargs, node, fr)

    def getattr(self, base, attr, node=None):
        if isinstance(base, SV) and base.ty.kind == "val":
            if attr in ("arity", "stored_arity"):
                z = uf("attr_" + attr, [VAL_SORT], z3.IntSort())(base.z)
                self.p.assume(z >= 0)
                self.w.used_assumption("the arity attribute of a function value is a non-negative integer")
                return SV(z, INT)
            return SV(uf("attr_" + attr, [VAL_SORT], VAL_SORT)(base.z), VAL)
        if isinstance(base, OpaqueValue):
            try:
                return self.w.wrap_global(getattr(base.v, attr))
            except AttributeError:
                return OpaqueValue((base.v, attr))
        return super().getattr(base, attr, node)

    def value_method(self, recv, name, args, kwargs, node, fr):
        if isinstance(recv, SV) and recv.ty.kind == "val":
            return self.opaque_call("m_" + name, [recv] + list(args), kwargs)
        if isinstance(recv, OpaqueValue):
            return self.opaque_call("m_" + name, list(args), kwargs)
        return super().value_method(recv, name, args, kwargs, node, fr)

    def assign(self, t, v, fr, node):
        if isinstance(t, ast.Attribute):
            base = self.eval(t.value, fr)
            if isinstance(base, Closure):
                return  # `_lambda_x.arity = n`: an attribute of the function object just defined
            if isinstance(base, SV) and base.ty.kind == "val":
                self.w.used_assumption(f"attribute store `.{t.attr} = ...` on a function value is not modelled (see C10)")
                self.p.notes.append(("attr-store-on-value", t.attr))
                return
        return super().assign(t, v, fr, node)

    def list_iadd(self, ref, other, node):
        if isinstance(other, SV) and other.ty.kind == "val":
            c = self.p.cell(ref)
            if c.items is not None and (c.elem is None or c.elem.kind == "val"):
                self.list_sv(ref, SEQ(VAL)) if c.items else None
                if c.items == []:
                    c.items, c.sv, c.elem = None, SV(z3.Empty(SEQ(VAL).sort()), SEQ(VAL)), VAL
            other = SV(VUNLIST(other.z), SEQ(VAL))
        return super().list_iadd(ref, other, node)

    def b_len(self, args, kw, node, fr):
        (v,) = args
        if isinstance(v, SV) and v.ty.kind == "val":
            n = uf("len_val", [VAL_SORT], z3.IntSort())(v.z)
            self.p.assume(n >= 0)
            return SV(n, INT)
        return super().b_len(args, kw, node, fr)

    def _all_any(self, which, args, kw, node, fr, base):
        """all(...) / any(...) over a sequence of symbolic length: an uninterpreted predicate of the sequence of
        tested values (sound: the same sequence gives the same answer, nothing else is known)"""
        (v,) = args
        from .engine2 import GenResult

        if isinstance(v, GenResult) and v.items is None:
            v = v.yielded
        if isinstance(v, SV) and v.ty.kind == "seq":
            self.w.used_assumption(f"{which}() over a sequence of symbolic length is an uninterpreted predicate of that sequence")
            return SV(uf(f"{which}_of_{re.sub(chr(92) + 'W', '_', str(v.ty.sort()))}", [v.ty.sort()], z3.BoolSort())(v.z), BOOL)
        return base(args, kw, node, fr)

    def b_all(self, args, kw, node, fr):
        return self._all_any("all", args, kw, node, fr, super().b_all)

    def b_any(self, args, kw, node, fr):
        return self._all_any("any", args, kw, node, fr, super().b_any)

    def b_str(self, args, kw, node, fr):
        if args and isinstance(args[0], SV) and args[0].ty.kind == "val":
            return self.opaque_call("str", args, {})
        return super().b_str(args, kw, node, fr)

    def b_abs(self, args, kw, node, fr):
        if args and isinstance(args[0], SV) and args[0].ty.kind == "val":
            return self.opaque_call("abs", args, {})
        return super().b_abs(args, kw, node, fr)

    def b_int(self, args, kw, node, fr):
        if args and isinstance(args[0], SV) and args[0].ty.kind == "val":
            return self.opaque_call("int", args, {})
        return super().b_int(args, kw, node, fr)

    def binop(self, op, a, b, node=None):
        va = isinstance(a, SV) and a.ty.kind == "val"
        vb = isinstance(b, SV) and b.ty.kind == "val"
        if va or vb:
            return self.opaque_call("op_" + type(op).__name__, [a, b], {})
        return super().binop(op, a, b, node)

    def e_BoolOp(self, n, fr):
        if self.spec_mode:
            # `a and b` / `a or b` on opaque values return an operand, also inside a clause
            vals = [self.eval(e, fr) for e in n.values]
            if all(isinstance(v, SV) and v.ty.kind == "val" for v in vals):
                out = vals[-1]
                for v in reversed(vals[:-1]):
                    t = self.truth(v)
                    out = SV(z3.If(t, out.z, v.z), VAL) if isinstance(n.op, ast.And) else SV(z3.If(t, v.z, out.z), VAL)
                return out
        return super().e_BoolOp(n, fr)

    def e_UnaryOp(self, n, fr):
        if isinstance(n.op, ast.USub):
            v = self.eval(n.operand, fr)
            if isinstance(v, SV) and v.ty.kind == "val":
                return self.opaque_call("op_neg", [v], {})
            if isinstance(v, SV):
                return SV(-lift(v, INT).z, INT)
            return -v
        return super().e_UnaryOp(n, fr)

    def iter_to_list(self, v, node, fr):
        if isinstance(v, SV) and v.ty.kind == "val":
            return self.new_list(sv=SV(VUNLIST(v.z), SEQ(VAL)))
        return super().iter_to_list(v, node, fr)

    def truth(self, v):
        if isinstance(v, SV) and v.ty.kind == "rec":
            return True  # a [vals, cursor] pair is a non-empty python list
        if isinstance(v, (OpaqueValue, OpaqueFn)):
            return True
        return super().truth(v)

    def s_For(self, s, fr):
        it_node = s.iter
        v = None
        try:
            v = self.eval(it_node, fr)
        except VCError:
            raise
        if isinstance(v, SV) and v.ty.kind == "val":
            # iteration over an opaque value: its items are vunlist(v)
            seq = SV(VUNLIST(v.z), SEQ(VAL))
            fr.env["__iter_tmp"] = seq
            s2 = ast.For(target=s.target, iter=ast.Name(id="__iter_tmp", ctx=ast.Load()), body=s.body, orelse=s.orelse)
            ast.copy_location(s2, s)
            ast.fix_missing_locations(s2)
            self.w.loop_index[id(s2)] = self.w.loop_index.get(id(s), -1)
            return super().s_For(s2, fr)
        # evaluate once only: re-evaluation would repeat side effects (pop)
        fr.env["__iter_tmp"] = v
        s2 = ast.For(target=s.target, iter=ast.Name(id="__iter_tmp", ctx=ast.Load()), body=s.body, orelse=s.orelse)
        ast.copy_location(s2, s)
        ast.fix_missing_locations(s2)
        self.w.loop_index[id(s2)] = self.w.loop_index.get(id(s), -1)
        return super().s_For(s2, fr)

    def compare(self, op, a, b, node=None):
        from .world import TypeOfVal

        if isinstance(a, TypeOfVal):
            def one(cls):
                nm = re.sub(r"\W", "_", str(getattr(cls, "name", None) or getattr(cls, "__name__", None) or "x"))
                return uf("exact_type_" + nm, [VAL_SORT], z3.BoolSort())(a.v.z)

            if isinstance(op, (ast.Is, ast.IsNot, ast.Eq, ast.NotEq)) and isinstance(b, (type, Builtin)):
                r = one(b)
                return SV(z3.Not(r) if isinstance(op, (ast.IsNot, ast.NotEq)) else r, BOOL)
            if isinstance(op, (ast.In, ast.NotIn)) and isinstance(b, (tuple, list)) and all(isinstance(c, (type, Builtin)) for c in b):
                r = z3.Or([one(c) for c in b])
                return SV(z3.Not(r) if isinstance(op, ast.NotIn) else r, BOOL)
            raise OutOfSubset("type(x) compared with something that is not a class")
        if isinstance(op, (ast.In, ast.NotIn)) and (isinstance(b, SV) and b.ty.kind == "val" or isinstance(a, (OpaqueValue, type)) and not isinstance(b, (tuple, list))):
            r = SV(uf("contains", [VAL_SORT, VAL_SORT], z3.BoolSort())(self.to_val(b).z, self.to_val(a).z), BOOL)
            return SV(z3.Not(r.z), BOOL) if isinstance(op, ast.NotIn) else r
        if isinstance(op, (ast.Is, ast.IsNot)) and (isinstance(a, SV) and a.ty.kind == "val") and b is None and getattr(self.w, "val_never_none", False):
            return isinstance(op, ast.IsNot)  # in this contract a parameter declared as a value is not None
        if isinstance(op, (ast.Is, ast.IsNot)) and (isinstance(a, SV) and a.ty.kind == "val") and b is None:
            r = SV(uf("is_none", [VAL_SORT], z3.BoolSort())(a.z), BOOL)
            return SV(z3.Not(r.z), BOOL) if isinstance(op, ast.IsNot) else r
        if isinstance(op, (ast.Is, ast.IsNot)) and (isinstance(a, SV) and a.ty.kind == "val") and isinstance(b, (type, Builtin, OpaqueValue)):
            r = SV(uf("is_" + re.sub(r"\W", "_", repr(getattr(b, "name", getattr(b, "__name__", "x")))), [VAL_SORT], z3.BoolSort())(a.z), BOOL)
            return SV(z3.Not(r.z), BOOL) if isinstance(op, ast.IsNot) else r
        if isinstance(op, (ast.Lt, ast.LtE, ast.Gt, ast.GtE)) and ((isinstance(a, SV) and a.ty.kind == "val") or (isinstance(b, SV) and b.ty.kind == "val")):
            # ordering of opaque values: an uninterpreted predicate (the same test gives the same answer)
            return SV(uf("cmp_" + type(op).__name__, [VAL_SORT, VAL_SORT], z3.BoolSort())(self.to_val(a).z, self.to_val(b).z), BOOL)
        if isinstance(a, SV) and a.ty.kind == "val" and not (isinstance(b, SV) and b.ty.kind == "val"):
            if isinstance(op, (ast.Eq, ast.NotEq)) and isinstance(b, (int, str, SV)):
                b = self.to_val(b)
            elif isinstance(op, (ast.Eq, ast.NotEq)):
                r = SV(uf("eq_const", [VAL_SORT, VAL_SORT], z3.BoolSort())(a.z, self.to_val(b).z), BOOL)
                return SV(z3.Not(r.z), BOOL) if isinstance(op, ast.NotEq) else r
        return super().compare(op, a, b, node)


class StarArgs:
    def __init__(self, v):
        self.v = v


class Hole:
    """HOLE_k(stack, ctx): a sub-program, abstracted by the induction hypothesis"""

    def __init__(self, k):
        self.k = k

    def apply(self, ex, fr):
        return ex.w.hole_contract(ex, fr, self.k)


MARK = re.compile(r'^(\s*)stack\.append\(sympy\.nsimplify\("(70\d\d)"\)\)\s*$')


def holes_in(text):
    """replace marker literal lines by HOLE_k(stack, ctx) calls; normalise random identifiers"""
    out = []
    for line in text.split("\n"):
        m = MARK.match(line)
        if m:
            out.append(f"{m.group(1)}HOLE_{m.group(2)}()")
        else:
            out.append(line)
    text = "\n".join(out)
    ids = {}

    def norm(m):
        ids.setdefault(m.group(0), f"{m.group(1)}{len(ids)}")
        return ids[m.group(0)]

    text = re.sub(r"(_lambda_|LOOP)[0-9a-f]{32}", norm, text)
    return text


def template_function(text, name):
    """template text -> ast.FunctionDef name(stack, ctx)"""
    mod = ast.parse(text)
    fdef = ast.FunctionDef(name=name, args=ast.arguments(posonlyargs=[], args=[ast.arg(arg="stack"), ast.arg(arg="ctx")], kwonlyargs=[], kw_defaults=[], defaults=[]), body=mod.body or [ast.Pass()], decorator_list=[])
    ast.fix_missing_locations(fdef)
    for n in ast.walk(fdef):
        if not hasattr(n, "lineno"):
            n.lineno = 1
    fdef.lineno = 0
    return fdef
