"""Native side: run the real repository function on concrete inputs and evaluate the
same contract clauses with CPython (replay of counterexamples, bounded search for a
failing input, and the engine cross-check)."""
from __future__ import annotations

import importlib
import itertools
import random
import re

from .sym import Ty
from .world import ListOf


def real_function(world, key):
    relpath, qual = key.split("::")
    qual = qual.split("#")[0]
    mod = importlib.import_module(relpath[:-3].replace("/", "."))
    obj = mod
    for part in qual.split("."):
        obj = getattr(obj, part)
    return obj


def clause_namespace(world):
    ns = {name: sf.pyfn for name, sf in world.specs.items() if not getattr(sf, "derived_from", None)}
    ns.update(world.clause_globals)
    ns["implies"] = lambda a, b: (not a) or b
    from . import native

    ns["forall_int"], ns["exists_int"] = native.forall_int, native.exists_int
    return ns


def ceval(expr, ns, env):
    """evaluate a clause natively; one dict so that lambdas inside the clause see the variables"""
    return eval(expr, {**ns, **env})


def parse_model_value(text, ty):
    """z3 sexpr of a model value -> python value (ints, strings, int sequences)"""
    text = text.strip()
    k = ty.kind if isinstance(ty, Ty) else "seq"
    if isinstance(ty, ListOf):
        ty = Ty("seq", elem=ty.elem)
        k = "seq"
    if k in ("int", "enum"):
        m = re.fullmatch(r"\(- (\d+)\)", text)
        return -int(m.group(1)) if m else int(text)
    if k == "bool":
        return text == "true"
    if k in ("str", "char"):
        s = text[1:-1].replace('""', '"')
        return re.sub(r"\\u\{([0-9a-fA-F]+)\}", lambda m: chr(int(m.group(1), 16)), s)
    if k == "seq" and ty.elem.kind == "int":
        if "as seq.empty" in text:
            return []
        return [-int(a) if neg else int(a) for neg, a in re.findall(r"\(seq\.unit (\(- )?(\d+)\)?\)", text)]
    raise ValueError(f"cannot concretise {text} as {ty}")


def small_values(decl, rnd, alphabet="ab`\\|01 λ"):
    ty = decl
    if isinstance(decl, ListOf):
        ty = Ty("seq", elem=decl.elem)
    if ty.kind == "int":
        return [0, 1, 2, 3, 5, 7, 10, 16, 27, 100, 255, 256, 1000, -1, -3, rnd.randrange(10**6)]
    if ty.kind == "bool":
        return [False, True]
    if ty.kind == "char":
        return list(alphabet)
    if ty.kind == "str":
        out = [""]
        for n in (1, 2, 3):
            out += ["".join(p) for p in itertools.product(alphabet[:5], repeat=n)][:60]
        out += ["".join(rnd.choice(alphabet) for _ in range(rnd.randrange(4, 12))) for _ in range(10)]
        return out
    if ty.kind == "seq" and ty.elem.kind == "int":
        out = [[]]
        for n in (1, 2, 3):
            out += [list(p) for p in itertools.product([0, 1, 2, 9], repeat=n)][:40]
        out += [[rnd.randrange(-3, 300) for _ in range(rnd.randrange(1, 8))] for _ in range(10)]
        return out
    raise ValueError(f"no generator for {ty}")


def check_once(world, key, args):
    """-> None if the contract holds on these arguments, else a dict describing the failure"""
    c = world.contracts[key]
    fn = real_function(world, key)
    ns = clause_namespace(world)
    env = dict(args)
    try:
        if not all(ceval(r, ns, env) for r in c.requires):
            return None
    except Exception:
        return None
    call_args = {k: (list(v) if isinstance(v, list) else v) for k, v in env.items()}
    try:
        result = fn(**call_args)
    except Exception as e:  # an exception where the contract promises a result
        if type(e).__name__ in c.raises:
            return None
        return dict(kind="exception", args=_j(args), exception=f"{type(e).__name__}: {e}")
    env2 = dict(env)
    env2["result"] = result
    for i, e in enumerate(c.ensures):
        try:
            ok = ceval(e, ns, env2)
        except Exception as ex:
            return dict(kind="clause-error", args=_j(args), clause=e, error=f"{type(ex).__name__}: {ex}")
        if not ok:
            return dict(kind="post", args=_j(args), clause=e, result=_j(result))
    for k, v in args.items():  # frame: list arguments not in modifies are unchanged
        if isinstance(v, list) and k not in c.modifies and call_args[k] != v:
            return dict(kind="frame", args=_j(args), changed=k, now=_j(call_args[k]))
    return None


def _j(v):
    if isinstance(v, dict):
        return {k: _j(x) for k, x in v.items()}
    if isinstance(v, (list, tuple)):
        return [_j(x) for x in v]
    if isinstance(v, (int, str, bool)) or v is None:
        return v
    return repr(v)


def replay_model(world, key, model):
    """turn a solver model into arguments of the real function and check the contract"""
    c = world.contracts[key]
    args = {}
    for nm, decl in c.params.items():
        if nm not in model:
            return None, "model does not assign " + nm
        try:
            args[nm] = parse_model_value(model[nm], decl)
        except Exception as e:
            return None, str(e)
    return check_once(world, key, args), args


def bounded_search(world, key, seed=0, budget=4000):
    """enumerate small arguments; -> (failure dict | None, evaluations)"""
    c = world.contracts[key]
    rnd = random.Random(seed)
    try:
        doms = {nm: small_values(decl, rnd) for nm, decl in c.params.items()}
    except ValueError as e:
        return None, 0, str(e)
    names = list(doms)
    n = 0
    combos = itertools.product(*[doms[k] for k in names])
    allc = list(itertools.islice(combos, 200000))
    rnd.shuffle(allc)
    for combo in allc[:budget]:
        n += 1
        f = check_once(world, key, dict(zip(names, combo)))
        if f is not None:
            return f, n, ""
    return None, n, ""
