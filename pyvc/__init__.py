"""pyvc -- a small verification-condition generator for a subset of Python.

It reads the *source text* of the functions under contract from the working
tree (never a copy), symbolically executes them path by path against sidecar
contracts (contracts/*.py) and hands every resulting obligation to z3 / cvc5.
See /verif/DESIGN.md section 2.
"""
