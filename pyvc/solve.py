"""Back ends: z3 (python API) first; every `unknown` is re-asked of cvc5.
Obligations travel as SMT-LIB2 text and are solved by worker processes that the
parent kills when a hard deadline passes (z3's soft timeout is not always honoured
by its sequence solver)."""
from __future__ import annotations

import multiprocessing as mp
import multiprocessing.connection as mpc
import os
import subprocess
import tempfile
import time

Z3_SOFT_MS = int(os.environ.get("VERIF_Z3_MS", "10000"))
Z3_HARD_S = float(os.environ.get("VERIF_Z3_HARD_S", "20"))
CVC5_S = int(os.environ.get("VERIF_CVC5_S", "30"))
CVC5_BIN = "/usr/bin/cvc5"


def _solve_z3(smt2, timeout_ms, want_model):
    import z3

    s = z3.Solver()
    s.set("timeout", timeout_ms)
    s.from_string(smt2)
    t0 = time.time()
    r = s.check()
    dt = time.time() - t0
    model = None
    if r == z3.sat:
        # guard against bogus models of the sequence solver: every assertion must evaluate to true
        m = s.model()
        for a in s.assertions():
            try:
                ev = m.eval(a, model_completion=True)
            except Exception:
                continue
            if z3.is_false(ev):
                return "unknown", time.time() - t0, None, "z3 model does not satisfy the query (discarded)"
        if want_model:
            model = {}
            for d in m.decls():
                if d.arity() == 0:
                    try:
                        model[d.name()] = m[d].sexpr()
                    except Exception:
                        pass
    reason = s.reason_unknown() if r == z3.unknown else ""
    return str(r), dt, model, reason


def _solve_cvc5(smt2, timeout_s):
    text = smt2
    if "(set-logic" not in text:
        text = "(set-logic ALL)\n" + text
    text = text.replace("(check-sat)", "") + "\n(check-sat)\n"
    with tempfile.NamedTemporaryFile("w", suffix=".smt2", delete=False) as f:
        f.write(text)
        name = f.name
    t0 = time.time()
    try:
        out = subprocess.run([CVC5_BIN, "--strings-exp", "--tlimit=%d" % (timeout_s * 1000), name], capture_output=True, text=True, timeout=timeout_s + 5)
        res = out.stdout.strip().splitlines()[-1] if out.stdout.strip() else "unknown"
        if res not in ("sat", "unsat", "unknown"):
            res = "unknown"
        err = (out.stderr.strip() or out.stdout.strip())[:200] if res == "unknown" else ""
    except subprocess.TimeoutExpired:
        res, err = "unknown", "timeout"
    finally:
        os.unlink(name)
    return res, time.time() - t0, err


def _worker(conn):
    while True:
        try:
            job = conn.recv()
        except EOFError:
            return
        if job is None:
            return
        name, smt2, expect, want_model = job[:4]
        soft = job[4] if len(job) > 4 else Z3_SOFT_MS
        try:
            r, dt, model, reason = _solve_z3(smt2, soft, want_model)
        except Exception as e:  # parse errors etc.
            r, dt, model, reason = "unknown", 0.0, None, f"z3 error: {e}"
        conn.send(dict(name=name, result=r, backend="z3", time=dt, model=model, reason=reason))


class _Slot:
    def __init__(self, ctx):
        self.ctx = ctx
        self.spawn()

    def spawn(self):
        self.parent, child = self.ctx.Pipe()
        self.proc = self.ctx.Process(target=_worker, args=(child,), daemon=True)
        self.proc.start()
        child.close()
        self.job = None
        self.deadline = None

    def kill(self):
        try:
            self.proc.kill()
            self.proc.join(1)
        except Exception:
            pass
        try:
            self.parent.close()
        except Exception:
            pass


def solve_all(jobs, procs=None, use_cvc5=True, retry=True):
    """jobs: list of (name, smt2, expect, want_model) -> list of result dicts (same order).
    Obligations left unknown by z3 (10 s) and cvc5 are asked again with a six times larger budget
    and little parallelism, so that a verdict does not flip when the machine is busy."""
    results = _solve_round(jobs, procs, use_cvc5, Z3_SOFT_MS, Z3_HARD_S)
    if retry:
        unk = [i for i, r in enumerate(results) if r["result"] == "unknown"]
        if unk:
            again = _solve_round([jobs[i] for i in unk], 4, False, Z3_SOFT_MS * 6, Z3_HARD_S * 5)
            for i, r in zip(unk, again):
                r["time"] += results[i]["time"]
                if r["result"] != "unknown":
                    r["backend"] = "z3(retry)"
                    results[i] = r
    return results


def _solve_round(jobs, procs, use_cvc5, soft_ms, hard_s):
    procs = procs or int(os.environ.get("VERIF_PROCS", "0")) or min(16, os.cpu_count() or 4)
    procs = max(1, min(procs, len(jobs)))
    results = [None] * len(jobs)
    if not jobs:
        return results
    ctx = mp.get_context("fork")
    slots = [_Slot(ctx) for _ in range(procs)]
    pending = list(range(len(jobs)))[::-1]
    active = 0
    try:
        while pending or active:
            for s in slots:
                if s.job is None and pending:
                    i = pending.pop()
                    s.job = i
                    s.deadline = time.time() + hard_s
                    s.parent.send(tuple(jobs[i][:4]) + (soft_ms,))
                    active += 1
            ready = mpc.wait([s.parent for s in slots if s.job is not None], timeout=0.25)
            now = time.time()
            for s in slots:
                if s.job is None:
                    continue
                if s.parent in ready:
                    try:
                        res = s.parent.recv()
                    except (EOFError, OSError):
                        res = dict(name=jobs[s.job][0], result="unknown", backend="z3", time=0.0, model=None, reason="z3 worker died")
                        s.kill()
                        s.spawn_needed = True
                        i = s.job
                        s.spawn()
                        results[i] = res
                        active -= 1
                        continue
                    results[s.job] = res
                    s.job = None
                    active -= 1
                elif now > s.deadline:
                    i = s.job
                    s.kill()
                    s.spawn()
                    results[i] = dict(name=jobs[i][0], result="unknown", backend="z3", time=hard_s, model=None, reason="z3 hard deadline (worker killed)")
                    active -= 1
    finally:
        for s in slots:
            try:
                s.parent.send(None)
            except Exception:
                pass
            s.kill()
    if use_cvc5:
        unk = [i for i, r in enumerate(results) if r["result"] == "unknown"]
        if unk:
            from concurrent.futures import ThreadPoolExecutor

            def ask(i):
                return i, _solve_cvc5(jobs[i][1], CVC5_S)

            with ThreadPoolExecutor(max_workers=procs) as tp:
                for i, (r2, dt2, err) in tp.map(ask, unk):
                    results[i]["time"] += dt2
                    if r2 != "unknown":
                        results[i].update(result=r2, backend="cvc5", reason="")
                    else:
                        results[i]["reason"] += f"; cvc5: {err or 'unknown'}"
    return results


def run_with_deadline(fn, args, seconds):
    """run fn(*args) in a forked child with a hard deadline; returns (ok, value|reason)"""
    ctx = mp.get_context("fork")
    parent, child = ctx.Pipe()

    def target(conn):
        try:
            conn.send(("ok", fn(*args)))
        except BaseException as e:  # noqa
            import traceback

            conn.send(("err", f"{type(e).__name__}: {e}\n{traceback.format_exc()[-1500:]}"))

    p = ctx.Process(target=target, args=(child,), daemon=True)
    p.start()
    child.close()
    if parent.poll(seconds):
        try:
            tag, val = parent.recv()
        except EOFError:
            tag, val = "err", "worker died"
        p.join(2)
        if p.is_alive():
            p.kill()
        return tag == "ok", val
    p.kill()
    p.join(1)
    return False, f"hard deadline of {seconds}s passed"
