"""Lemmas over spec functions, proved by a stated induction: the induction
hypothesis is instantiated explicitly (the solver never does induction)."""
from __future__ import annotations

import z3

from .sym import *  # noqa
from .state import *  # noqa
from .engine import Frame
from .verify import Executor, FunctionReport


class Lemma:
    def __init__(self, name, vars, goal, requires=(), ih=(), hints=(), fuel=1, props=(), note="", needs=(), asserts=(), executor=None):
        self.name, self.vars, self.goal = name, vars, goal
        self.requires, self.ih, self.hints, self.fuel = list(requires), list(ih), list(hints), fuel
        self.props, self.note, self.needs, self.asserts, self.executor = list(props), note, list(needs), list(asserts), executor


class LemmaFn:
    """use site: calling the lemma inside a hint assumes the instance (requires => goal)"""

    def __init__(self, lemma):
        self.lemma = lemma

    def apply(self, ex, args, kwargs):
        lm = self.lemma
        env = dict(zip(lm.vars, args))
        env.update(kwargs)
        env = {k: ex.to_sv(v) if not isinstance(v, SV) else v for k, v in env.items()}
        fr = Frame(env, {}, "lemma:" + lm.name)
        saved = ex.spec_mode
        ex.spec_mode += 1
        try:
            pre = [ex.eval_clause(r, fr) for r in lm.requires]
            goal = ex.eval_clause(lm.goal, fr)
        finally:
            ex.spec_mode = saved
        ex.p.assume(z3.Implies(z3.And(pre + [z3.BoolVal(True)]), goal))
        return True


def verify_lemma(world, lm):
    rep = FunctionReport("lemma::" + lm.name)
    path = Path([], [])
    cls = Executor
    if lm.executor == "template":
        from .templates import TemplateExecutor as cls
    ex = cls(path, world)
    ex.fuel = lm.fuel
    ex.prefix = "lemma:" + lm.name
    env = {v: ex.make_param(v, ty) for v, ty in lm.vars.items()}
    fr = Frame(env, {}, "lemma:" + lm.name)
    try:
        for r in lm.requires:
            path.assume(ex.eval_clause(r, fr))
        path.obligations.append(Obligation(f"{ex.prefix}/cover-pre", "cover", list(path.pc), z3.BoolVal(True), expect="sat"))
        for i, inst in enumerate(lm.ih):
            guard = ex.eval_clause(inst.get("when", "True"), fr)
            ienv = dict(env)
            for v, text in inst["at"].items():
                ienv[v] = ex.eval_value_clause(text, fr)
                ienv[v] = lift(ex.to_sv(ienv[v]), lm.vars[v])
            ifr = Frame(ienv, {}, "lemma-ih")
            # the instance must be smaller in the well-founded measure
            m_here = ex.eval_value_clause(inst["measure"], fr)
            m_inst = ex.eval_value_clause(inst["measure"], ifr)
            mh, mi = lift(ex.to_sv(m_here), INT).z, lift(ex.to_sv(m_inst), INT).z
            path.oblige(f"{ex.prefix}/ih-decreases#{i}", "lemma-step", z3.Implies(guard, z3.And(mi >= 0, mi < mh)))
            pre = [ex.eval_clause(r, ifr) for r in lm.requires]
            goal = ex.eval_clause(lm.goal, ifr)
            path.assume(z3.Implies(z3.And([guard] + pre), goal))
        for h in lm.hints:
            ex.eval_clause(h, fr, hint=True)
        for i, cl in enumerate(lm.asserts):  # intermediate facts: proved, then assumed
            z = ex.eval_clause(cl, fr)
            path.oblige(f"{ex.prefix}/assert#{i}", "lemma", z)
            path.assume(z)
        path.oblige(f"{ex.prefix}/goal", "lemma", ex.eval_clause(lm.goal, fr))
    except VCError as e:
        rep.error, rep.error_kind = f"{type(e).__name__}: {e}", "subset"
    for ob in path.obligations:
        ob.meta["fn"] = rep.key
        rep.obligations.append(ob)
    rep.paths = 1
    return rep
