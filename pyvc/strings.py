"""String helpers of the World (join / count / split / replace / int<->str)."""
from __future__ import annotations

import z3

from .sym import *  # noqa
from .state import *  # noqa
from .world import World


def str_join(self, ex, sep, arg):
    """sep.join(arg)"""
    sepc = as_const(sep.z)
    if isinstance(arg, Ref) and ex.p.cell(arg).items is not None:
        items = ex.p.cell(arg).items
        out = None
        for i, x in enumerate(items):
            xs = lift(ex.to_sv(x), STR)
            out = xs if out is None else SV(z3.Concat(out.z, sep.z, xs.z), STR)
        return out if out is not None else ""
    sv = arg.yielded if hasattr(arg, "yielded") else ex.to_sv(arg)
    if sepc == "" and sv.ty.kind == "str":
        return SV(sv.z, STR)  # join of a sequence of single characters
    if hasattr(ex, "to_val") and sv.ty.kind == "seq" and sv.ty.elem.kind == "val":
        # template mode: the joined text of a sequence of opaque values is an opaque value determined by separator and sequence
        from .templates import uf

        return SV(uf("app_str_join", [z3.StringSort(), sv.ty.sort()], VAL_SORT)(sep.z, sv.z), VAL)
    raise OutOfSubset("str.join over a symbolic list of strings")


World.str_join = str_join


def _cnt_fn(self):
    if not hasattr(self, "_cnt"):
        self._cnt = z3.Function("cnt", z3.StringSort(), z3.StringSort(), z3.IntSort())
    return self._cnt


def str_count(self, ex, s, sub):
    """s.count(c) for a single character c: recursive definition unfolded once at the end"""
    f = _cnt_fn(self)
    app = f(s.z, sub.z)
    n = z3.Length(s.z)
    last = z3.SubString(s.z, n - 1, 1)
    init = z3.SubString(s.z, 0, n - 1)
    ex.p.assume(z3.Implies(z3.Length(sub.z) == 1, z3.And(app >= 0, app <= n, z3.Implies(n == 0, app == 0), z3.Implies(n > 0, app == f(init, sub.z) + z3.If(last == sub.z, 1, 0)), (app == 0) == z3.Not(z3.Contains(s.z, sub.z)))))
    self.used_assumption("str.count(c) for a one-character c: cnt(s,c)=cnt(s[:-1],c)+[s[-1]==c], cnt==0 iff c not in s (definition, instantiated at the call)")
    return app


World.str_count = str_count


def replace_all(self, ex, s, a, b):
    return z3.Replace  # overwritten below


def _replace_all(self, ex, s, a, b):
    ca = as_const(a.z)
    if "repl1" in self.specs and isinstance(ca, str) and len(ca) == 1:
        # s.replace(c, r) for a one-character c: the recursive spec function repl1 (defined in contracts)
        return ex.apply_spec(self.specs["repl1"], [s, a, b]).z
    if not hasattr(self, "_repl"):
        self._repl = z3.Function("replace_all", z3.StringSort(), z3.StringSort(), z3.StringSort(), z3.StringSort())
    self.used_assumption("str.replace is an uninterpreted function replace_all (its definition is supplied by lemmas where needed)")
    return self._repl(s.z, a.z, b.z)


World.replace_all = _replace_all


def int_of_str(self, ex, sv):
    self.used_assumption("int(str) is z3 str.to_int (decimal digits only)")
    return z3.StrToInt(sv.z)


def str_of_int(self, ex, sv):
    self.used_assumption("str(int) is z3 int.to.str for non-negative ints")
    return z3.IntToStr(sv.z)


World.int_of_str = int_of_str
World.str_of_int = str_of_int


def str_split(self, ex, s, sep):
    """s.split(c) for a one-character c, on paths where c occurs at most once
    (two forks); more occurrences are outside the subset."""
    cnt = str_count(self, ex, s, sep)
    if ex.spec_mode:
        raise OutOfSubset("str.split inside a spec function")
    if ex.p.fork(cnt == 0):
        return ex.new_list([SV(s.z, STR)])
    if not ex.p.fork(cnt == 1):
        raise OutOfSubset("str.split with more than one separator on this path")
    i = z3.IndexOf(s.z, sep.z, 0)
    n = z3.Length(s.z)
    ex.p.assume(z3.And(i >= 0, i < n))
    note_nonneg(i >= 0)
    # the same terms a contract clause gets from s[:s.find(c)] and s[s.find(c)+1:]
    a = seq_slice(s, None, i).z
    b = seq_slice(s, i + 1, None).z
    f = _cnt_fn(self)
    # facts about the first occurrence (true of every string): nothing before it, exactly cnt-1 after it
    ex.p.assume(z3.And(i >= 0, i < n, z3.Not(z3.Contains(a, sep.z)), f(a, sep.z) == 0, f(b, sep.z) == cnt - 1, z3.Not(z3.Contains(b, sep.z))))
    self.used_assumption("str.split(c) with exactly one occurrence of c: [s[:i], s[i+1:]] with i = s.find(c), and c occurs in neither part")
    return ex.new_list([SV(a, STR), SV(b, STR)])


World.str_split = str_split
