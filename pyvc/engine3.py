"""Third part: statements, loops cut by invariants, calls by contract, closures,
spec functions, generators."""
from __future__ import annotations

import ast
import z3

from .sym import *  # noqa
from .state import *  # noqa
from .engine import *  # noqa
from .engine import _Return, _Break, _Continue, _Raise, _Unbound, MUTATORS
from .engine2 import ExecPlaces, GenResult


def assigned_names(nodes):
    out = set()
    for n in nodes:
        for x in ast.walk(n):
            if isinstance(x, ast.Name) and isinstance(x.ctx, ast.Store):
                out.add(x.id)
            elif isinstance(x, (ast.FunctionDef,)):
                out.add(x.name)
    return out


class ExecFull(ExecPlaces):
    # ------------------------------------------------------------------ statements
    def exec_block(self, stmts, fr):
        for s in stmts:
            self.exec_stmt(s, fr)

    def exec_stmt(self, s, fr):
        m = getattr(self, "s_" + type(s).__name__, None)
        if m is None:
            raise OutOfSubset(f"statement {type(s).__name__} at {self.where(s)}")
        return m(s, fr)

    def s_Pass(self, s, fr):
        pass

    def s_Import(self, s, fr):
        pass

    def s_ImportFrom(self, s, fr):
        for a in s.names:
            fr.env[a.asname or a.name] = self.w.import_from(s.module, a.name)

    def s_Nonlocal(self, s, fr):
        pass

    def s_Global(self, s, fr):
        pass

    def s_Expr(self, s, fr):
        if isinstance(s.value, ast.Constant):
            return
        if isinstance(s.value, (ast.Yield, ast.YieldFrom)):
            return self.do_yield(s.value, fr)
        self.eval(s.value, fr)

    def s_Return(self, s, fr):
        raise _Return(None if s.value is None else self.eval(s.value, fr))

    def s_Break(self, s, fr):
        raise _Break()

    def s_Continue(self, s, fr):
        raise _Continue()

    def s_Raise(self, s, fr):
        name = "Exception"
        if s.exc is not None:
            e = s.exc.func if isinstance(s.exc, ast.Call) else s.exc
            name = e.id if isinstance(e, ast.Name) else getattr(e, "attr", "Exception")
        raise _Raise(name)

    def s_Assert(self, s, fr):
        # python assert: a failing assert raises -> the function does not return normally
        v = self.eval(s.test, fr)
        if not self.branch(v):
            raise _Raise("AssertionError")

    def s_If(self, s, fr):
        if self.branch(self.eval(s.test, fr)):
            self.exec_block(s.body, fr)
        else:
            self.exec_block(s.orelse, fr)

    def s_Assign(self, s, fr):
        v = self.eval(s.value, fr)
        for t in s.targets:
            self.assign(t, v, fr, s)

    def s_AnnAssign(self, s, fr):
        if s.value is not None:
            self.assign(s.target, self.eval(s.value, fr), fr, s)

    def assign(self, t, v, fr, node):
        if isinstance(t, ast.Name):
            fr.env[t.id] = v
        elif isinstance(t, (ast.Tuple, ast.List)):
            items = self.unpack(v, len(t.elts), node)
            for e, x in zip(t.elts, items):
                self.assign(e, x, fr, node)
        elif isinstance(t, ast.Attribute):
            base = self.eval(t.value, fr)
            if isinstance(base, Ref) and isinstance(self.p.cell(base), ObjCell):
                self.p.cell(base).fields[t.attr] = v
            elif isinstance(base, Closure):
                self.w.closure_attr_store(self, base, t.attr, v, node)
            else:
                raise OutOfSubset("attribute store on a non-object")
        elif isinstance(t, ast.Subscript):
            if isinstance(t.slice, ast.Slice):
                raise OutOfSubset("slice assignment")
            parent = self.place(t.value, fr, for_method=True)
            if parent is None:
                raise OutOfSubset("subscript store on a non-place")
            self.store_index(parent, self.eval(t.slice, fr), v, node)
        else:
            raise OutOfSubset("assignment target")

    def unpack(self, v, n, node):
        if isinstance(v, tuple):
            if len(v) != n:
                raise _Raise("ValueError")
            return list(v)
        if isinstance(v, Ref) and self.p.cell(v).items is not None:
            items = self.p.cell(v).items
            if len(items) != n:
                raise _Raise("ValueError")
            return list(items)
        sv = self.to_sv(v)
        if sv.ty.kind == "rec":
            return [SV(sv.ty.acc(i)(sv.z), sv.ty.fields[i][1]) for i in range(n)]
        ln = seq_len(sv)
        self.oblige("unpack-length", ln == n, node)
        self.p.assume(ln == n)
        return [seq_nth(sv, z3.IntVal(i)) for i in range(n)]

    def s_AugAssign(self, s, fr):
        t = s.target
        rhs = self.eval(s.value, fr)
        if isinstance(s.op, ast.Add):
            place = self.place(t, fr, for_method=True) if not isinstance(t, ast.Name) or isinstance(fr.env.get(t.id), Ref) else None
            if isinstance(t, ast.Name) and isinstance(fr.env.get(t.id), Ref):
                place = fr.env[t.id]
            if isinstance(place, Ref) and isinstance(self.p.cell(place), ListCell):
                return self.list_iadd(place, rhs, s)
            if isinstance(place, View):
                cur = place.read(self)
                if isinstance(cur, SV) and cur.ty.kind == "seq":
                    place.write(self, seq_concat(cur, self.to_sv(rhs, cur.ty)))
                    return
        cur = self.eval(_as_load(t), fr)
        self.assign(t, self.binop(s.op, cur, rhs, s), fr, s)

    # ---- try
    def s_Try(self, s, fr):
        if s.finalbody:
            raise OutOfSubset("try/finally")
        try:
            self.exec_block(s.body, fr)
        except _Raise as r:
            for h in s.handlers:
                names = _handler_names(h)
                if names is None or r.exc in names or "Exception" in names or "BaseException" in names:
                    if h.name:
                        fr.env[h.name] = None
                    self.exec_block(h.body, fr)
                    return
            raise
        else:
            self.exec_block(s.orelse, fr)

    # ---- nested defs
    def s_FunctionDef(self, s, fr):
        lazy = any(_dec_name(d) == "lazylist" for d in s.decorator_list)
        from .verify import _is_generator

        is_gen = _is_generator(s)
        clo = Closure(s, fr.env, fr.globals, name=s.name, is_generator=is_gen, lazylist=lazy, owner=fr.fn_name)
        clo.owner_contract = fr.contract
        fr.env[s.name] = clo

    # ------------------------------------------------------------------ loops
    def loop_contract(self, fr, node):
        k = self.w.loop_index.get(id(node))
        if k is None:
            k = -1
        c = fr.contract
        spec = None
        if c is not None and c.loops:
            spec = c.loops.get(k)
        return k, spec

    def havoc_for_loop(self, body, fr, spec):
        """havoc everything the loop body may change (DESIGN 2.2): locals assigned in
        the body, and heap cells reachable from names the body mutates."""
        names = assigned_names(body)
        for nm in names:
            if nm in fr.env:
                fr.env[nm] = self.havoc_value(fr.env[nm], nm)
        if fr.yielded is not None and any(isinstance(x, (ast.Yield, ast.YieldFrom)) for st in body for x in ast.walk(st)):
            fr.yielded = fresh("_yielded", fr.yielded.ty)  # the loop yields: what has been yielded so far is loop state
            fr.env["_yielded"] = fr.yielded
        roots = _mutated_roots(body) | set((spec or {}).get("modifies", []))
        c = fr.contract
        if c is not None and getattr(c, "interference", None) and any(isinstance(x, (ast.Yield, ast.YieldFrom)) for st in body for x in ast.walk(st)):
            roots |= set(c.interference.get("modifies", []))  # a loop that yields: other code ran in earlier iterations
        callees_mod = self.w.callee_modifies(body, fr, self)
        roots |= callees_mod
        for r in sorted(roots):
            try:
                v = self.eval(ast.parse(r, mode="eval").body, fr)
            except (OutOfSubset, NeedsContract, KeyError, _Raise):
                continue  # (_Raise: a name the body binds itself, e.g. a nested def, is not bound yet at the loop head: nothing to havoc)
            self.havoc_heap(v, r, deep=True)

    def havoc_value(self, v, nm):
        if isinstance(v, SV):
            return fresh(nm, v.ty)
        if isinstance(v, Ref):
            self.havoc_heap(v, nm, deep=True)
            return v
        if isinstance(v, bool):
            return fresh(nm, BOOL)
        if isinstance(v, int):
            return fresh(nm, INT)
        if isinstance(v, str):
            return fresh(nm, STR)
        if v is None or isinstance(v, _Unbound):
            return v
        if isinstance(v, tuple):
            return tuple(self.havoc_value(x, nm) for x in v)
        return v

    def havoc_heap(self, v, nm, deep=False):
        if not isinstance(v, Ref):
            return
        c = self.p.cell(v)
        if isinstance(c, ListCell):
            if c.items is not None:
                if c.elem is None and not c.items:
                    raise OutOfSubset(f"cannot havoc untyped empty list {nm}: give the loop a 'types' hint")
                self.list_sv(v)
            c.sv = fresh(nm, c.sv.ty)
        elif isinstance(c, IterCell):
            c.pos = z3.Const(fresh_name(nm + "_pos"), z3.IntSort())
            self.p.assume(z3.And(c.pos >= 0, c.pos <= seq_len(c.seq)))
        elif isinstance(c, ObjCell) and deep:
            for f, fv in list(c.fields.items()):
                if isinstance(fv, Ref):
                    self.havoc_heap(fv, f"{nm}.{f}", deep)
                elif isinstance(fv, SV) and f in self.w.mutable_fields(c.cls):
                    c.fields[f] = fresh(f"{nm}.{f}", fv.ty)

    def check_invariant(self, spec, fr, kind, node, k):
        for i, inv in enumerate(spec.get("inv", [])):
            z = self.eval_clause(inv, fr)
            self.oblige(kind, z, node, tag=f"#{k}.{i}")

    def assume_invariant(self, spec, fr):
        for inv in spec.get("inv", []):
            self.p.assume(self.eval_clause(inv, fr))
        for h in spec.get("hints", []):
            self.eval_clause(h, fr, hint=True)

    def eval_clause(self, text, fr, hint=False):
        """evaluate a contract clause (python expression text) to a z3 Bool"""
        node = self.w.parse_clause(text)
        self.spec_mode += 1
        try:
            v = self.eval(node, fr)
        except VCError as e:
            raise type(e)(f"{e} [in clause `{text[:120]}`]") from None
        finally:
            self.spec_mode -= 1
        if hint:
            return None
        t = self.truth(v)
        return z3.BoolVal(t) if isinstance(t, bool) else t

    def loop_entry(self, spec, fr):
        for nm, ty in spec.get("types", {}).items():
            self.type_hint(fr, nm, ty)
        for nm, text in spec.get("entry", {}).items():
            fr.env[nm] = self.eval_value_clause(text, fr)
        for h in spec.get("hints_init", []):
            self.eval_clause(h, fr, hint=True)

    def loop_pre_iteration(self, spec, fr):
        """snapshots `x0` of the variables named in spec['pre'], then spec['lets']"""
        for nm in spec.get("pre", []):
            fr.env[nm + "0"] = self.eval_value_clause(nm, fr)
        for nm, text in spec.get("lets", {}).items():
            fr.env[nm] = self.eval_value_clause(text, fr)

    def loop_back_edge(self, spec, fr, node, k):
        for h in spec.get("hints_end", []):
            self.eval_clause(h, fr, hint=True)
        for i, cl in enumerate(spec.get("asserts_end", [])):
            z = self.eval_clause(cl, fr)  # intermediate fact: proved here, then available to inv-keep
            self.oblige("assert", z, node, tag=f"#{k}.{i}")
            self.p.assume(z)
        for i, cl in enumerate(spec.get("step", [])):
            z = self.eval_clause(cl, fr)
            self.oblige("step", z, node, tag=f"#{k}.{i}")
            self.p.assume(z)  # proved above; later obligations of this path may use it
        self.check_invariant(spec, fr, "inv-keep", node, k)

    def s_While(self, s, fr):
        k, spec = self.loop_contract(fr, s)
        if spec is None:
            return self.unrolled_while(s, fr)
        if s.orelse:
            raise OutOfSubset("while/else")
        self.loop_entry(spec, fr)
        self.check_invariant(spec, fr, "inv-init", s, k)
        choice = self.p.decide(2)
        self.havoc_for_loop(s.body + [ast.Expr(s.test)], fr, spec)
        self.assume_invariant(spec, fr)
        if choice == 0:  # an arbitrary iteration
            self.loop_pre_iteration(spec, fr)
            if not self.branch(self.eval(s.test, fr)):
                raise PathEnd("loop guard false on the iteration path")
            try:
                self.exec_block(s.body, fr)
            except _Continue:
                pass
            except _Break:
                return
            self.loop_back_edge(spec, fr, s, k)
            raise PathEnd("loop back-edge")
        else:
            if self.branch(self.eval(s.test, fr)):
                raise PathEnd("loop guard true on the exit path")
            for h in spec.get("hints_exit", []):
                self.eval_clause(h, fr, hint=True)

    def unrolled_while(self, s, fr, limit=64):
        for _ in range(limit):
            t = self.truth(self.eval(s.test, fr))
            if not isinstance(t, bool):
                raise OutOfSubset(f"loop at {self.where(s)} has no invariant (and is not concretely bounded)")
            if not t:
                return
            try:
                self.exec_block(s.body, fr)
            except _Continue:
                continue
            except _Break:
                return
        raise OutOfSubset("unrolling limit")

    def type_hint(self, fr, nm, ty):
        v = fr.env.get(nm)
        if isinstance(v, Ref):
            c = self.p.cell(v)
            if isinstance(c, ListCell) and c.items is not None:
                self.list_sv(v, ty)

    def s_For(self, s, fr):
        k, spec = self.loop_contract(fr, s)
        it = self.eval(s.iter, fr)
        if isinstance(it, View):
            it = it.read(self)
        # concretely bounded iteration: unroll
        items = None
        if isinstance(it, (tuple, str)):
            items = list(it)
        elif isinstance(it, Ref) and isinstance(self.p.cell(it), ListCell) and self.p.cell(it).items is not None:
            items = list(self.p.cell(it).items)
        elif isinstance(it, SRange) and all(isinstance(x, int) for x in (it.start, it.stop, it.step)):
            items = list(range(it.start, it.stop, it.step))
        elif isinstance(it, GenResult) and it.items is not None:
            items = it.items
        if items is not None and spec is None:
            for x in items:
                self.assign(s.target, x, fr, s)
                try:
                    self.exec_block(s.body, fr)
                except _Continue:
                    continue
                except _Break:
                    return
            self.exec_block(s.orelse, fr)
            return
        if spec is None:
            raise OutOfSubset(f"for loop at {self.where(s)} has no invariant")
        if s.orelse:
            raise OutOfSubset("for/else")
        self.loop_entry(spec, fr)
        # iteration source
        iter_cell = None
        if isinstance(it, SRange):
            count = self.range_count(it)
            start = z3.IntVal(it.start) if isinstance(it.start, int) else it.start
            elem_at = lambda kk: SV(z3.simplify(start + kk * it.step), INT)
        elif isinstance(it, Ref) and isinstance(self.p.cell(it), IterCell):
            iter_cell = self.p.cell(it)
        elif isinstance(it, Ref) and isinstance(self.p.cell(it), ObjCell):
            return self.for_interleaved(s, fr, it, k, spec)
        else:
            seq = self.to_sv(it) if not isinstance(it, GenResult) else it.yielded
            count = seq_len(seq)
            elem_at = lambda kk: seq_nth(seq, kk)
        if iter_cell is not None:
            return self.for_iterator(s, fr, it, k, spec)
        kname = f"_k"
        start_k = 0
        if spec.get("peel"):
            # first iteration executed as written (e.g. an accumulator that starts as None), the invariant
            # speaks about iterations >= 1; the contract must make the sequence non-empty
            if spec.get("peel") == "or-empty":
                # the sequence may be empty: then the loop is skipped as a whole (its own path)
                if self.p.decide(2) == 1:
                    self.p.assume(count == 0)
                    return
            else:
                self.oblige("peel-nonempty", count >= 1, s, tag=f"#{k}")
            self.p.assume(count >= 1)
            self.assign(s.target, elem_at(z3.IntVal(0)), fr, s)
            try:
                self.exec_block(s.body, fr)
            except _Continue:
                pass
            except _Break:
                return
            start_k = 1
        fr.env[kname] = start_k
        self.check_invariant(spec, fr, "inv-init", s, k)
        choice = self.p.decide(2)
        self.havoc_for_loop(s.body, fr, spec)
        kv = fresh("_k", INT)
        fr.env[kname] = kv
        self.p.assume(z3.And(kv.z >= start_k, kv.z <= count))
        self.assume_invariant(spec, fr)
        if choice == 0:
            self.p.assume(kv.z < count)
            self.assign(s.target, elem_at(kv.z), fr, s)
            self.loop_pre_iteration(spec, fr)
            try:
                self.exec_block(s.body, fr)
            except _Continue:
                pass
            except _Break:
                return
            fr.env[kname] = SV(kv.z + 1, INT)
            self.loop_back_edge(spec, fr, s, k)
            raise PathEnd("loop back-edge")
        else:
            self.p.assume(kv.z == count)
            for h in spec.get("hints_exit", []):
                self.eval_clause(h, fr, hint=True)

    def for_iterator(self, s, fr, it, k, spec):
        """for x in <iterator cell>: the cell's position is the loop counter
        (the body may advance it further with next(it, default))"""
        self.check_invariant(spec, fr, "inv-init", s, k)
        choice = self.p.decide(2)
        self.havoc_for_loop(s.body, fr, spec)
        self.havoc_heap(it, "iter")
        self.assume_invariant(spec, fr)
        c = self.p.cell(it)
        n = seq_len(c.seq)
        if choice == 0:
            self.p.assume(c.pos < n)
            self.assign(s.target, seq_nth(c.seq, c.pos), fr, s)
            c.pos = c.pos + 1
            self.loop_pre_iteration(spec, fr)
            try:
                self.exec_block(s.body, fr)
            except _Continue:
                pass
            except _Break:
                return
            self.loop_back_edge(spec, fr, s, k)
            raise PathEnd("loop back-edge")
        else:
            self.p.assume(c.pos >= n)

    def for_interleaved(self, s, fr, obj, k, spec):
        """for x in <object>: iteration through the object's __iter__ generator *by contract*:
        item j is yields[j]; at each yield the callee's `at_yield` clauses hold (its side effects so far),
        at exhaustion its `ensures`.  The consumer must not mutate the object between resumptions."""
        cell = self.p.cell(obj)
        fn = self.w.method(cell.cls, "__iter__")
        c = self.w.contracts.get(fn.key) if fn is not None else None
        if c is None or not c.yields_expr:
            raise NeedsContract(f"{cell.cls}.__iter__ needs a generator contract (yields_expr, at_yield)")
        cenv = {"self": obj}
        cfr = Frame(cenv, fn.globals, "contract:" + fn.name)
        for nm, text in c.lets.items():
            cenv[nm] = self.eval_value_clause(text, cfr)
        for i, r in enumerate(c.requires):
            self.oblige("pre", self.eval_clause(r, cfr), s, tag=f"[{fn.name}#{i}]")
        full = self.eval_value_clause(c.yields_expr, cfr)
        full = self.to_sv(full)
        self.loop_entry(spec, fr)
        fr.env["_k"] = 0
        self.check_invariant(spec, fr, "inv-init", s, k)
        choice = self.p.decide(2)
        self.havoc_for_loop(s.body, fr, spec)
        self.apply_modifies(c, c.modifies, cfr)
        kv = fresh("_k", INT)
        fr.env["_k"] = kv
        n = seq_len(full)
        self.p.assume(z3.And(kv.z >= 0, kv.z <= n))
        self.assume_invariant(spec, fr)
        if choice == 0:
            self.p.assume(kv.z < n)
            cenv["_yielded"] = seq_slice(full, None, kv.z + 1)
            for cl in c.at_yield:
                self.p.assume(self.eval_clause(cl, cfr))
            self.assign(s.target, seq_nth(full, kv.z), fr, s)
            self.loop_pre_iteration(spec, fr)
            try:
                self.exec_block(s.body, fr)
            except _Continue:
                pass
            except _Break:
                return
            fr.env["_k"] = SV(kv.z + 1, INT)
            self.loop_back_edge(spec, fr, s, k)
            raise PathEnd("loop back-edge")
        else:
            self.p.assume(kv.z == n)
            cenv["result"] = full
            for e in c.ensures:
                self.p.assume(self.eval_clause(e, cfr))
            for h in spec.get("hints_exit", []):
                self.eval_clause(h, fr, hint=True)

    # ------------------------------------------------------------------ generators
    def do_yield(self, node, fr):
        if fr.yielded is None:
            raise OutOfSubset("yield outside a generator frame")
        if isinstance(node, ast.Yield):
            v = self.eval(node.value, fr)
            ysv = fr.yielded
            et = elem_of(ysv.ty)
            fr.yielded = seq_concat(ysv, SV(unit(lift(self.to_sv(v), et)), ysv.ty))
            fr.env["_yielded"] = fr.yielded
            c = fr.contract
            if c is not None and c.at_yield:
                for i, cl in enumerate(c.at_yield):
                    self.oblige("at-yield", self.eval_clause(cl, fr), node, tag=f".{i}")
            self.interfere(fr)
        else:
            c = fr.contract
            if c is not None and getattr(c, "interference", None):
                live = self.eval(node.value, fr)
                if isinstance(live, Ref) and isinstance(self.p.cell(live), ListCell):
                    return self.yield_from_live(node, fr)
            v = self.eval(node.value, fr)
            got = self.iter_to_list(v, node, fr)
            fr.yielded = seq_concat(fr.yielded, self.to_sv(got, fr.yielded.ty))
            fr.env["_yielded"] = fr.yielded

    def interfere(self, fr):
        """the generator is suspended: other code runs.  Under an interference contract the places it may change
        are havocked and only the rely clauses are known afterwards"""
        c = fr.contract
        spec = getattr(c, "interference", None) if c is not None else None
        if not spec:
            return
        for nm, text in spec.get("lets", {}).items():
            fr.env[nm] = self.eval_value_clause(text, fr)
        self.apply_modifies(c, spec.get("modifies", []), fr)
        for cl in spec.get("rely", []):
            self.p.assume(self.eval_clause(cl, fr))

    def yield_from_live(self, node, fr):
        """`yield from <list>` under interference: CPython's list iterator reads the live list by index, so the
        statement is the loop  L = <expr>; _j = 0; while _j < len(L): yield L[_j]; _j += 1  (loop contract key yieldfrom#k)"""
        cache = self.w.__dict__.setdefault("_synth_yield_from", {})
        if id(node) not in cache:
            src = ast.unparse(node.value)
            # the iterated object is evaluated once (a name or attribute aliases the live list, a slice or call is a private copy)
            tree = ast.parse(f"_yf = {src}\n_j = 0\nwhile _j < len(_yf):\n    yield _yf[_j]\n    _j += 1\n")
            for n in ast.walk(tree):
                if hasattr(n, "lineno"):
                    n.lineno = n.end_lineno = node.lineno
            k = f"yieldfrom#{self.w.__dict__.setdefault('_synth_count', {}).setdefault(fr.fn_name, 0)}"
            self.w._synth_count[fr.fn_name] += 1
            self.w.loop_index[id(tree.body[2])] = k
            cache[id(node)] = (tree, node)  # keep the node alive: ids are reused after collection
        self.exec_block(cache[id(node)][0].body, fr)

    # ------------------------------------------------------------------ closures & spec functions
    def bind_args(self, fnode, args, kwargs, env, fr_globals):
        a = fnode.args
        params = [x.arg for x in a.posonlyargs + a.args]
        defaults = a.defaults
        env = dict(env)
        n_no_default = len(params) - len(defaults)
        for i, p in enumerate(params):
            if i < len(args):
                env[p] = args[i]
            elif p in kwargs:
                env[p] = kwargs[p]
            elif i >= n_no_default:
                dfr = Frame(env, fr_globals, "<default>")
                env[p] = self.eval(defaults[i - n_no_default], dfr)
            else:
                raise OutOfSubset(f"missing argument {p}")
        if a.vararg:
            env[a.vararg.arg] = tuple(args[len(params):])
        elif len(args) > len(params):
            raise OutOfSubset("too many positional arguments")
        for kw, d in zip(a.kwonlyargs, a.kw_defaults):
            if kw.arg in kwargs:
                env[kw.arg] = kwargs[kw.arg]
            elif d is not None:
                env[kw.arg] = self.eval(d, Frame(env, fr_globals, "<default>"))
            else:
                raise OutOfSubset(f"missing keyword argument {kw.arg}")
        return env

    def call_closure(self, clo, args, kwargs, node):
        env = self.bind_args(clo.node, args, kwargs, clo.env, clo.globals) if not isinstance(clo.node, ast.Lambda) else self.bind_args(clo.node, args, kwargs, clo.env, clo.globals)
        # closures share the defining environment for reads; writes are local (nonlocal unsupported)
        fr = Frame(_ChainEnv(env, clo.env), clo.globals, clo.name, contract=self.w.contract_for_closure(clo))
        if isinstance(clo.node, ast.Lambda):
            return self.eval(clo.node.body, fr)
        if clo.is_generator:
            ety = self.w.closure_yield_type(clo)
            fr.yielded = SV(z3.Empty(SEQ(ety).sort()), SEQ(ety))
            fr.env["_yielded"] = fr.yielded
        saved = self.prefix
        self.prefix = f"{saved}>{clo.name}"
        try:
            self.exec_block(clo.node.body, fr)
            r = None
        except _Return as ret:
            r = ret.value
        finally:
            self.prefix = saved
        if clo.is_generator:
            return GenResult(fr.yielded)
        return r

    def apply_spec(self, sf, args):
        zs = [lift(self.to_sv(a, t), t) for a, t in zip(args, sf.arg_tys)]
        if not sf.recursive:
            return self.expand_spec(sf, zs)
        app = sf.z(*[x.z for x in zs])
        self.unfold_spec(sf, zs, app, self.fuel)
        return SV(app, sf.res_ty)

    def expand_spec(self, sf, zs):
        params = [x.arg for x in sf.node.args.args]
        fr = Frame(dict(zip(params, zs)), sf.globs, "spec:" + sf.name)
        saved_bc = self.bounds_checks
        self.bounds_checks = False
        self.spec_mode += 1
        try:
            body = [st for st in sf.node.body if not (isinstance(st, ast.Expr) and isinstance(st.value, ast.Constant))]
            if len(body) != 1 or not isinstance(body[0], ast.Return):
                raise OutOfSubset(f"spec function {sf.name} must be a single return expression")
            v = self.eval(body[0].value, fr)
            return lift(self.to_sv(v, sf.res_ty), sf.res_ty)
        finally:
            self.spec_mode -= 1
            self.bounds_checks = saved_bc

    def unfold_spec(self, sf, zs, app, fuel):
        key = (sf.name, app.sexpr())
        if fuel <= 0 or key in self.unfolded:
            return
        self.unfolded.add(key)
        # evaluate the body once with recursive applications left uninterpreted (fuel-1)
        a = sf.node.args
        params = [x.arg for x in a.args]
        env = dict(zip(params, zs))
        fr = Frame(env, sf.globs, "spec:" + sf.name)
        saved_fuel, saved_bc = self.fuel, self.bounds_checks
        self.fuel, self.bounds_checks = fuel - 1, False
        self.spec_mode += 1
        try:
            body = [st for st in sf.node.body if not (isinstance(st, ast.Expr) and isinstance(st.value, ast.Constant))]
            if len(body) != 1 or not isinstance(body[0], ast.Return):
                raise OutOfSubset(f"spec function {sf.name} must be a single return expression")
            v = self.eval(body[0].value, fr)
            v = lift(self.to_sv(v, sf.res_ty), sf.res_ty)
        finally:
            self.spec_mode -= 1
            self.fuel, self.bounds_checks = saved_fuel, saved_bc
        self.p.assume(app == v.z, definitional=True)


class _ChainEnv(dict):
    """local env that falls back to the enclosing function's env for reads"""

    def __init__(self, local, outer):
        super().__init__(local)
        self.outer = outer

    def __contains__(self, k):
        return dict.__contains__(self, k) or k in self.outer

    def __getitem__(self, k):
        if dict.__contains__(self, k):
            return dict.__getitem__(self, k)
        return self.outer[k]

    def get(self, k, d=None):
        return self[k] if k in self else d


def _as_load(t):
    import copy

    t2 = copy.deepcopy(t)
    for x in ast.walk(t2):
        if hasattr(x, "ctx"):
            x.ctx = ast.Load()
    return t2


def _handler_names(h):
    if h.type is None:
        return None
    ts = h.type.elts if isinstance(h.type, ast.Tuple) else [h.type]
    return [t.id if isinstance(t, ast.Name) else t.attr for t in ts]


def _dec_name(d):
    if isinstance(d, ast.Name):
        return d.id
    if isinstance(d, ast.Attribute):
        return d.attr
    if isinstance(d, ast.Call):
        return _dec_name(d.func)
    return None


def _root_text(node):
    """text of a Name/Attribute chain (without subscripts), or None"""
    while isinstance(node, ast.Subscript):
        node = node.value
    if isinstance(node, ast.Name):
        return node.id
    if isinstance(node, ast.Attribute):
        b = _root_text(node.value)
        return None if b is None else f"{b}.{node.attr}"
    return None


def _mutated_roots(body):
    roots = set()
    for st in body:
        for x in ast.walk(st):
            if isinstance(x, ast.Call) and isinstance(x.func, ast.Attribute) and x.func.attr in MUTATORS:
                r = _root_text(x.func.value)
                if r:
                    roots.add(r)
            elif isinstance(x, (ast.Assign, ast.AugAssign)):
                targets = x.targets if isinstance(x, ast.Assign) else [x.target]
                for t in targets:
                    for tt in ast.walk(t):
                        if isinstance(tt, (ast.Subscript, ast.Attribute)) and isinstance(tt.ctx, ast.Store):
                            r = _root_text(tt.value)
                            if r:
                                roots.add(r)
                            if isinstance(tt, ast.Attribute):
                                r2 = _root_text(tt)
                                if r2:
                                    roots.add(r2)
                    if isinstance(x, ast.AugAssign) and isinstance(t, (ast.Attribute,)):
                        r = _root_text(t)
                        if r:
                            roots.add(r)
    return roots


# ------------------------------------------------------------------ comprehensions as recursive spec functions
class _SubstTarget(ast.NodeTransformer):
    def __init__(self, name, repl):
        self.name, self.repl = name, repl

    def visit_Name(self, n):
        if n.id == self.name:
            return ast.copy_location(self.repl(), n)
        return n


def _free_names(node, bound):
    out = []
    for x in ast.walk(node):
        if isinstance(x, ast.Name) and x.id not in bound and x.id not in out:
            out.append(x.id)
    return out


def comp_function(ex, node, fr, kind):
    """[elt for x in S]  ->  application of a recursive function derived mechanically
    from the comprehension:  comp(S, caps) = [] if len(S)==0 else comp(S[:-1], caps) + [elt[x:=S[-1]]]"""
    gen = node.generators[0]
    tuple_target = isinstance(gen.target, ast.Tuple) and all(isinstance(e, ast.Name) for e in gen.target.elts)
    if len(node.generators) != 1 or gen.ifs or not (isinstance(gen.target, ast.Name) or tuple_target):
        raise OutOfSubset("comprehension shape (one generator, name or tuple-of-names target, no condition)")
    if tuple_target:
        # for x, y in S  ==  for _p in S with x := _p[0], y := _p[1]
        import copy

        elt = copy.deepcopy(node.elt)
        for i, e in enumerate(gen.target.elts):
            elt = _SubstTarget(e.id, (lambda i: lambda: ast.parse(f"_p[{i}]", mode="eval").body)(i)).visit(elt)
        node2 = type(node)(elt=elt, generators=[ast.comprehension(target=ast.Name(id="_p", ctx=ast.Store()), iter=gen.iter, ifs=[], is_async=0)])
        ast.copy_location(node2, node)
        ast.fix_missing_locations(node2)
        node2.lineno = node.lineno
        return comp_function(ex, node2, fr, kind)
    it = ex.eval(gen.iter, fr)
    if isinstance(it, View):
        it = it.read(ex)
    tname = gen.target.id
    # concrete-length iterable: unroll
    items = None
    if isinstance(it, (tuple, str)):
        items = list(it)
    elif isinstance(it, Ref) and isinstance(ex.p.cell(it), ListCell) and ex.p.cell(it).items is not None:
        items = list(ex.p.cell(it).items)
    if items is not None:
        out = []
        for x in items:
            env2 = _ChainEnv({tname: x}, fr.env)
            out.append(ex.eval(node.elt, Frame(env2, fr.globals, fr.fn_name, fr.contract)))
        return ex.new_list(out)
    if isinstance(it, GenResult):
        S = it.yielded
    else:
        S = ex.to_sv(it)
    if S.ty.kind == "val":  # iterating an opaque list value: its items
        S = ex.to_sv(S, SEQ(VAL))
    caps = [nm for nm in _free_names(node.elt, {tname}) if nm in fr.env and isinstance(fr.env[nm], (SV, Ref))]
    cap_vals = [ex.to_sv(fr.env[nm]) for nm in caps]
    import hashlib

    # named by its own text and captured names: the same comprehension written in a contract clause is the same function
    fname = "comp_" + hashlib.sha1((ast.unparse(node) + "|" + ",".join(caps)).encode()).hexdigest()[:8]
    sf = ex.w.specs.get(fname)
    if sf is None:
        # element type: evaluate the element expression on a fresh element
        probe = fresh("probe", elem_of(S.ty))
        if probe.ty.kind == "char":
            ex.p.assume(z3.Length(probe.z) == 1)
        env2 = _ChainEnv({tname: probe}, fr.env)
        ex.spec_mode += 1
        try:
            pv = ex.to_sv(ex.eval(node.elt, Frame(env2, fr.globals, fr.fn_name, fr.contract)))
        finally:
            ex.spec_mode -= 1
        res_ty = SEQ(pv.ty)
        params = ["_s"] + caps
        elt = _SubstTarget(tname, lambda: ast.parse("_s[-1]", mode="eval").body).visit(__import__("copy").deepcopy(node.elt))
        call = ast.Call(func=ast.Name(id=fname, ctx=ast.Load()), args=[ast.parse("_s[:-1]", mode="eval").body] + [ast.Name(id=c, ctx=ast.Load()) for c in caps], keywords=[])
        empty = ast.Constant(value="") if res_ty.kind == "str" else ast.List(elts=[], ctx=ast.Load())
        single = elt if res_ty.kind == "str" else ast.List(elts=[elt], ctx=ast.Load())
        body = ast.IfExp(test=ast.parse("len(_s) == 0", mode="eval").body, body=empty, orelse=ast.BinOp(left=call, op=ast.Add(), right=single))
        fdef = ast.FunctionDef(name=fname, args=ast.arguments(posonlyargs=[], args=[ast.arg(arg=p) for p in params], kwonlyargs=[], kw_defaults=[], defaults=[]), body=[ast.Return(value=body)], decorator_list=[])
        ast.fix_missing_locations(fdef)
        pyfn = lambda *a: None
        pyfn.__name__ = fname
        sf = SpecFn(pyfn, [S.ty] + [c.ty for c in cap_vals], res_ty, fdef, fr.globals)
        sf.derived_from = f"{fr.fn_name}: {ast.unparse(node)}"
        ex.w.specs[fname] = sf
    r = ex.apply_spec(sf, [S] + cap_vals)
    return r if kind == "gen" else ex.new_list(sv=r)


def _e_ListComp(self, n, fr):
    return comp_function(self, n, fr, "list")


def _e_GeneratorExp(self, n, fr):
    r = comp_function(self, n, fr, "gen")
    if isinstance(r, Ref):
        c = self.p.cell(r)
        return GenResult(None, items=c.items)
    return GenResult(r)


ExecFull.e_ListComp = _e_ListComp
ExecFull.e_GeneratorExp = _e_GeneratorExp
