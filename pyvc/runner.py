"""Generation of obligations in a forked child (hard deadline), as picklable records."""
from __future__ import annotations

import os
import time

from .solve import run_with_deadline, solve_all
from .verify import verify_function
from .lemmas import verify_lemma

GEN_DEADLINE_S = float(os.environ.get("VERIF_GEN_S", "120"))


def _gen(world, key):
    if key in world.analyses:
        rep = world.analyses[key][0](world)
    elif key in world.lemmas:
        for k in world.lemmas[key].needs:  # creates the comprehension-derived functions the lemma talks about
            cls = None
            if world.contracts[k].executor == "template":
                from .templates import TemplateExecutor as cls
            verify_function(world, k, executor_cls=cls) if cls else verify_function(world, k)
        rep = verify_lemma(world, world.lemmas[key])
    else:
        cls = None
        if world.contracts[key].executor == "template":
            from .templates import TemplateExecutor as cls
        if world.contracts[key].executor == "numbers":
            from .numbers import NumExecutor as cls
        rep = verify_function(world, key, executor_cls=cls) if cls else verify_function(world, key)
    obs = []
    seen = set()
    for o in rep.obligations:
        text = o.smt2()
        sig = (o.name.rsplit("/p", 1)[0], hash(text))
        if sig in seen:
            continue  # same obligation reached again on another path prefix
        seen.add(sig)
        obs.append(dict(name=o.name, kind=o.kind, smt2=text, expect=o.expect, where=o.where, fn=key))
    return dict(key=key, obligations=obs, paths=rep.paths, error=rep.error, error_kind=rep.error_kind, wall=rep.wall, source_hash=rep.source_hash, assumptions=list(world.assumptions),
                derived={n: getattr(s, "derived_from", None) for n, s in world.specs.items() if getattr(s, "derived_from", None)})


def generate(world, key):
    t0 = time.time()
    ok, val = run_with_deadline(_gen, (world, key), GEN_DEADLINE_S)
    if ok:
        return val
    return dict(key=key, obligations=[], paths=0, error=str(val), error_kind="generator", wall=time.time() - t0, source_hash=None, assumptions=[], derived={})


def generate_all(world, keys, procs=None):
    """functions first (they create comprehension specs), then lemmas; generation of each
    key happens in its own child, in parallel"""
    from concurrent.futures import ThreadPoolExecutor

    procs = procs or min(16, os.cpu_count() or 4)
    with ThreadPoolExecutor(max_workers=procs) as tp:
        return list(tp.map(lambda k: generate(world, k), keys))


def discharge(reports, want_model=True):
    jobs = []
    for r in reports:
        for o in r["obligations"]:
            jobs.append((o["name"], o["smt2"], o["expect"], want_model))
    results = solve_all(jobs)
    i = 0
    for r in reports:
        for o in r["obligations"]:
            o["result"] = results[i]
            o["ok"] = results[i]["result"] == o["expect"]
            i += 1
    return reports
