"""C11 -- input is a cyclic stream shared by explicit and implicit reads."""
from __future__ import annotations

import itertools
import random

from .base import Prop, Ground
from . import runcommon as rc


class C11(Prop):
    id = "C11"
    contract_modules = ["inputs", "templates"]
    trusted_base = ["CPython semantics of the subset (DESIGN 2.2)", "z3 5.1 / cvc5 1.0.3 (unsat answers)", "environment: stdin at end of file (a read with no inputs yields 0)"]
    paper_steps = [
        "history lemma: get_input / pop / wrapify / the `?` template are proved against the pure stream functions gi_val, gi_next, reads, after_reads; input_stream_cycles (induction on the number of reads) gives: the k-th top-level read is input (cursor+k-1) mod n, whichever mix of explicit and implicit reads produced it; input_stream_empty_is_zero the 0 default",
        "lambda / function templates (from the real transpile) push [reversed arguments, 0] as innermost scope (obligation C11-own-scope) and pop it on exit (C12); inner_scope_reads: implicit reads then cycle over the arguments, explicit reads still use scope 0",
    ]

    def wants(self, name):
        if name.startswith("struct["):
            return "C11-" in name or "/pre[" in name
        return True

    # ---- native oracle: the spec functions executed by CPython against the real interpreter
    def history_search(self, seed, n_hist, maxlen=10):
        rnd = random.Random(seed)
        evals = 0
        for inputs in [(), (5,), (5, 6), (5, 6, 7), (0, "", 3), ([], 1)]:
            for _ in range(n_hist):
                evals += 1
                ops = [rnd.choice(["?", "+", "_", "λ_;†", "1 λ?;†", "λ?_?;†", "2 3 λ2|+;†", "∇", "1 λ_X;†", "λW;2*†∑", "λ+;2*†", "@f:2|+;@f;", "⟨1|2|3⟩λ+;2*M∑"]) for _ in range(rnd.randrange(1, maxlen))]
                prog = " ".join(ops) + " W"
                r = rc.run_program(prog, inputs)
                if r["error"] is not None:
                    continue
                exp = self.model(ops, list(inputs))
                got = rc.simp(r["stack"])
                if exp is not None and got != [exp]:
                    self.last_n = evals
                    return dict(program=prog, inputs=repr(inputs), stack=repr(got), expected=repr([exp]))
        self.last_n = evals
        return None

    def model(self, ops, inputs):
        """reference semantics of the read history, written directly from the property statement"""
        cur = [0]
        n = len(inputs)

        def read():
            if n == 0:
                return 0
            v = inputs[cur[0] % n]
            cur[0] += 1
            return v

        st = []

        def pop():
            return st.pop() if st else read()

        for op in ops:
            if op == "?":
                st.append(read())
            elif op == "+":
                b, a = pop(), pop()
                if not (isinstance(a, int) and isinstance(b, int)):
                    return None
                st.append(a + b)
            elif op == "_":
                pop()
            elif op == "∇":
                c, b, a = pop(), pop(), pop()
                st += [c, a, b]
            elif op == "λ_;†":  # lambda, arity 1: pops its argument from the outer stack (implicit read if empty)
                a = pop()
                st.append(a)  # `_` drops the argument, the result is an implicit read of the lambda's own scope: a
            elif op == "1 λ?;†":
                st.append(1)
                pop()
                st.append(read())
            elif op == "λ?_?;†":
                pop()
                read()
                st.append(read())
            elif op == "2 3 λ2|+;†":
                st.append(5)
            elif op in ("λW;2*†∑", "λ+;2*†", "@f:2|+;@f;"):  # arity given at run time (2) / a function with a numeric parameter count: two arguments from the outer stack, implicit reads for missing ones
                b, a = pop(), pop()
                if not (isinstance(a, int) and isinstance(b, int)):
                    return None
                st.append(a + b)
            elif op == "⟨1|2|3⟩λ+;2*M∑":  # mapped over a list, the lambda gets ONE argument per call whatever arity was stored on it: x + (implicit read of its own scope = x)
                st.append(12)
            elif op == "1 λ_X;†":
                st.append(1)
                a = pop()
                st.append(a)
            else:
                return None
        return st

    def replay(self, W, report, ob):
        key = report["key"]
        if key in W.contracts and key.startswith("vyxal/"):
            w = Prop.replay(self, W, report, ob)
            if w:
                return w
        return self.history_search(1, 60)

    def stale_search(self, W, key, seed):
        return self.history_search(seed, 80)

    def entry_point_cases(self):
        """through execute_vyxal (not a hand-built context): the inputs given are the inputs read, in order, an empty string included"""
        import contextlib
        import io
        from vyxal.main import execute_vyxal

        n = 0
        for prog, inputs, want in (("?,?,?,", ["", "7"], "\n7\n\n"), ("?,?,", ["", ""], "\n\n"), ("?,?,?,", ["5", "", "6"], "5\n\n6\n"), ("+,", ["3", "4"], "7\n"), ("?,", [""], "\n"), ("_?,", ["1", "2"], "2\n")):
            n += 1
            buf = io.StringIO()
            try:
                with contextlib.redirect_stdout(buf):
                    execute_vyxal(prog, "eO", list(inputs))
                got = buf.getvalue()
            except BaseException as e:  # noqa
                got = f"raised {type(e).__name__}: {e}"
            if got != want:
                return dict(program=prog, inputs=repr(inputs), stack=repr(got), expected=repr(want), entry_point="execute_vyxal"), n
        return None, n

    def bounded(self, W, tier, seed):
        n = 40 if tier != "thorough" else 1500
        w = self.history_search(seed, n, 12)
        w2, n2 = self.entry_point_cases()
        w = w or w2
        return [dict(name="C11/bounded-read-histories", what="random read histories (explicit ?, implicit pops of arity 1-3, reads inside lambda scopes, early exit) on input lists of length 0..3 incl. falsy values, run on the real interpreter against a reference written from the property statement; six programs through execute_vyxal with empty-string inputs", bound=f"{n} histories x 6 input lists, length <= 12", evaluations=self.last_n, label="bounded", failures=[w] if w else [])]

    def run_replay(self, path):
        import json

        d = json.load(open(path, encoding="utf-8"))
        print(json.dumps(d, ensure_ascii=False, indent=1)[:1500])
        w = d.get("witness") or {}
        if "program" in w:
            r = rc.run_program(w["program"], eval(w["inputs"]))
            print("stack now:", rc.simp(r["stack"]), "expected", w.get("expected"))
            return 1 if repr(rc.simp(r["stack"])) != w.get("expected") else 0
        return 0


PROP = C11()
