"""C04 -- omitting trailing closers never changes the parse."""
from __future__ import annotations

import ast
import random

from .base import Prop, Ground
from . import parsecommon as pc
from .C03 import C03


def _uses(fnode, name):
    """textual forms in which `name` is used inside the function"""
    parents = {}
    for p in ast.walk(fnode):
        for c in ast.iter_child_nodes(p):
            parents[id(c)] = p
    forms = set()
    for x in ast.walk(fnode):
        if isinstance(x, ast.Name) and x.id == name:
            p = parents.get(id(x))
            top = x
            # climb through subscripts / attribute of the name
            while isinstance(p, (ast.Subscript, ast.Attribute)) and (getattr(p, "value", None) is top):
                top, p = p, parents.get(id(p))
            text = ast.unparse(top)
            if isinstance(p, ast.Call) and top in p.args:
                f = ast.unparse(p.func)
                forms.add(f"{f}(arg{p.args.index(top)}={text})")
            elif isinstance(p, ast.Call) and p.func is top:
                forms.add(f"call {text}")
            elif isinstance(x.ctx, ast.Store):
                forms.add(f"assign {text}")
            elif isinstance(p, (ast.While, ast.If)) and p.test is top:
                forms.add(f"truth {text}")
            elif isinstance(p, ast.UnaryOp) and isinstance(p.op, ast.Not):
                forms.add(f"truth {text}")
            elif isinstance(p, ast.comprehension) and p.iter is top:
                forms.add(f"iterate {text}")
            elif isinstance(p, ast.Compare):
                forms.add(f"compare {ast.unparse(p)}")
            else:
                forms.add(f"other {text} in {type(p).__name__}")
    return forms


ALLOWED_TOKENS = {"assign tokens", "truth tokens", "call tokens.popleft", "_get_branches(arg0=tokens)", "parse(arg0=tokens)"}
ALLOWED_BRANCHES = {
    "assign branches", "len(arg0=branches)", "iterate branches[:-1]", "parse(arg0=branches[-1])", "parse(arg0=branches[0])",
    "process_parameters(arg0=branches[0])", "int(arg0=branches[0][0].value)", "map(arg1=branches)", "other branches in Starred",
}


class C04(C03):
    id = "C04"
    contract_modules = ["lexer", "parser"]
    paper_steps = [
        "determinism-prefix: parse() reads `tokens` only through popleft() and emptiness tests (obligation parse/tokens-read-only-by-popleft), so the closed and the truncated run are in the same state until the closed run reads its first extra closer, where the truncated run sees an empty deque",
        "closing_run + truncated_run (proved over gb, and _get_branches == gb is proved): from that state the closed run ends with the inner closers appended to the last branch, the truncated run with the same branches otherwise",
        "the last branch is only ever handed to a recursive parse() (obligation parse/last-branch-only-to-parse), where the same theorem applies to a shorter input; parse/top-level-closer: closers met by parse's own loop are ignored",
        "unterminated_string_same_token + string_payload_is_data: a string closed by end of input lexes to the same token",
        "precondition (Structures.md): name / arity / loop-variable branches contain no structure characters",
    ]

    def ground(self, W, tier, seed):
        fn = W.find_function("vyxal/parse.py::parse")
        g = []
        if fn is None:
            return [Ground("C04/parse-found", False, "vyxal/parse.py::parse missing")]
        tu = _uses(fn.node, "tokens")
        g.append(Ground("parse/tokens-read-only-by-popleft", tu <= ALLOWED_TOKENS, f"unexpected uses: {sorted(tu - ALLOWED_TOKENS)}"))
        bu = _uses(fn.node, "branches")
        g.append(Ground("parse/last-branch-only-to-parse", bu <= ALLOWED_BRANCHES, f"unexpected uses: {sorted(bu - ALLOWED_BRANCHES)}"))
        return g

    def truncation_search(self, seed, n):
        rnd = random.Random(seed)
        evals = 0
        for src in pc.gen_programs(rnd, n, depth=3):
            closed = pc.parse_shape(src, abstract=False)
            if closed and closed[0] == "raises":
                continue
            for t in pc.truncations(src):
                evals += 1
                got = pc.parse_shape(t, abstract=False)
                if got != closed:
                    self.last_n = evals
                    return dict(closed=src, truncated=t, shape_closed=repr(closed)[:300], shape_truncated=repr(got)[:300])
        self.last_n = evals
        return None

    def replay(self, W, report, ob):
        key = report["key"]
        if key.endswith("::tokenise"):
            return C03.replay(self, W, report, ob)
        return self.truncation_search(0, 1500)

    def stale_search(self, W, key, seed):
        return self.truncation_search(seed, 1500)

    def bounded(self, W, tier, seed):
        n = 1500 if tier != "thorough" else 20000
        w = self.truncation_search(seed, n)
        return [dict(name="C04/bounded-truncations", what="generated closed programs (depth <= 3, all nine structure kinds, all modifiers); every suffix of the trailing closers dropped; parse trees compared on the real lexer+parser", bound=f"{n} programs", evaluations=self.last_n, label="bounded", failures=[w] if w else [])]

    def run_replay(self, path):
        import json

        d = json.load(open(path, encoding="utf-8"))
        w = d.get("witness") or {}
        print(json.dumps(d, ensure_ascii=False, indent=1)[:1500])
        if "closed" in w:
            a, b = pc.parse_shape(w["closed"], False), pc.parse_shape(w["truncated"], False)
            print("closed:", a, "\ntruncated:", b)
            return 1 if a != b else 0
        if "source" in w:
            return 1 if pc.replay_lexer(w["source"]) else 0
        return 0


PROP = C04()
