"""C03 -- literal contents and comments are data, never syntax."""
from __future__ import annotations

import itertools
import random

from .base import Prop, Ground
from . import parsecommon as pc

KINDS = {0: "string", 2: "character", 4: "compressed_number", 5: "compressed_string", 8: "codepage_number"}


class C03(Prop):
    id = "C03"
    contract_modules = ["lexer", "parser", "transpiler"]
    # the lowering of a string literal: its payload ends up inside exactly one Python constant (never as Python syntax)
    extra_keys = ["vyxal/transpile.py::transpile_token", "literal_body_is_one_literal"]
    trusted_base = ["CPython str/list/deque semantics as encoded (DESIGN 2.2)", "z3 5.1 / cvc5 1.0.3 (unsat answers)"]
    paper_steps = [
        "tokenise == lex (proved) + payload lemmas on lex => the tokens after a literal do not depend on its payload",
        "_get_branches == gb (proved); gb looks at token.value only under kind GENERAL (definition of is_opener/is_closer/is_bar)",
        "transpile_token (proved): a string payload is lowered to the body of one double-quoted Python literal (no bare quote, no raw newline, backslashes paired)",
        "parse(): every test on the head token agrees for two tokens of the same literal kind (branch-agree); recursion through parse(branches[..]) is the induction hypothesis",
    ]

    def wants(self, name):
        return not name.startswith("transpile_token/post#") or "string-literal" in name

    def kind_enum(self):
        from vyxal.lexer import TokenType

        return {i: t.value for i, t in enumerate(TokenType)}

    def replay(self, W, report, ob):
        key = report["key"]
        model = ob["result"].get("model") or {}
        if key.endswith("::tokenise"):
            from pyvc.concrete import parse_model_value
            from pyvc.sym import STR

            for nm, val in model.items():
                if nm.startswith("source"):
                    try:
                        w = pc.replay_lexer(parse_model_value(val, STR))
                    except Exception:
                        w = None
                    if w:
                        return w
            return pc.search_lexer()
        if key.startswith("parse#dispatch") or key.endswith("_get_branches"):
            w = self.search_payload(quick=True, model=model)
            return w
        return None

    def search_payload(self, quick=True, model=None):
        """two programs differing only in one literal payload whose parse shapes differ"""
        kinds = ["string", "character", "compressed_number", "compressed_string", "codepage_number", "two_char"]
        payloads = [""] + pc.SYNTAX_CHARS + ['"', '\\"', '\\\\"', '"\\', "\n", '\\"|;', "'"]  # + quotes and backslash-quote pairs: what could end the Python constant
        if model:
            from pyvc.concrete import parse_model_value
            from pyvc.sym import STR

            for nm in ("v1", "v2"):
                if nm in model:
                    try:
                        payloads.insert(0, parse_model_value(model[nm], STR))
                    except Exception:
                        pass
        if not quick:
            payloads += ["".join(p) for p in itertools.product(pc.SYNTAX_CHARS, repeat=2)]
        n = 0
        self.escape_witness = None
        pyref = {}
        for kind in kinds:
            for ctx in pc.CONTEXTS:
                base = pc.literal_text(kind, "ab" if kind in ("two_char",) else ("a" if kind in ("character", "codepage_number") else "ab"))
                ref = pc.parse_shape(ctx.format(base))
                for p in payloads:
                    lit = pc.literal_text(kind, p)
                    if lit is None:
                        continue
                    n += 1
                    src = ctx.format(lit)
                    got = pc.parse_shape(src)
                    if got != ref:
                        self.last_n = n
                        return dict(kind=kind, context=ctx, program_a=ctx.format(base), program_b=src, shape_a=repr(ref)[:300], shape_b=repr(got)[:300])
                    if "error" not in repr(ref)[:40]:
                        pa, pb = pyref.setdefault((kind, ctx), pc.py_shape(ctx.format(base))), pc.py_shape(src)
                        if pa != pb and "unicodeescape" in pb and "does not parse" in pb:
                            # the recorded C02 finding (malformed Python escape in a string): note one witness, keep searching
                            i = next((j for j, (x, y) in enumerate(zip(pa, pb)) if x != y), min(len(pa), len(pb)))
                            self.escape_witness = self.escape_witness or dict(kind=kind, context=ctx, program_a=ctx.format(base), program_b=src, emitted="the Python emitted for the two programs differs beyond the pushed constant", python_a=pa[max(0, i - 80):i + 120], python_b=pb[max(0, i - 80):i + 120])
                            continue
                        if pa != pb:
                            self.last_n = n
                            i = next((j for j, (x, y) in enumerate(zip(pa, pb)) if x != y), min(len(pa), len(pb)))
                            return dict(kind=kind, context=ctx, program_a=ctx.format(base), program_b=src, emitted="the Python emitted for the two programs differs beyond the pushed constant", python_a=pa[max(0, i - 80):i + 120], python_b=pb[max(0, i - 80):i + 120])
        self.last_n = n
        return None

    def bounded(self, W, tier, seed):
        w = self.search_payload(quick=(tier != "thorough"))
        fails = [x for x in (getattr(self, "escape_witness", None), w) if x]
        return [dict(name="C03/bounded-payload-substitution", what="literal payloads over the syntax-significant characters substituted in fixed contexts; parse shapes compared on the real lexer+parser, and the emitted Python compared with the pushed constants masked", bound=f"payload length <= {1 if tier != 'thorough' else 2}, {len(pc.CONTEXTS)} contexts, 6 literal kinds", evaluations=self.last_n, label="bounded", failures=fails)]

    def run_replay(self, path):
        import json

        d = json.load(open(path, encoding="utf-8"))
        w = d.get("witness") or {}
        print(json.dumps(d, ensure_ascii=False, indent=1)[:1500])
        if "program_a" in w:
            a, b = pc.parse_shape(w["program_a"]), pc.parse_shape(w["program_b"])
            print("shape a:", a, "\nshape b:", b)
            if "emitted" in w:
                return 1 if pc.py_shape(w["program_a"]) != pc.py_shape(w["program_b"]) else 0
            return 1 if a != b else 0
        if "source" in w:
            return 1 if pc.replay_lexer(w["source"]) else 0
        return 0


PROP = C03()
