"""C08 -- vectorising elements act element-wise."""
from __future__ import annotations

import ast
import random
import re

from .base import Prop, Ground
from . import runcommon as rc


class C08(Prop):
    id = "C08"
    contract_modules = ["vectorise"]
    trusted_base = ["CPython semantics of the subset (DESIGN 2.2)", "z3 5.1 / cvc5 1.0.3 (unsat answers)", "safe_apply(f, args) is an uninterpreted pure function (the element itself)", "LazyList(source) enumerates the items of source (C13)", "line reader for elements.yaml"]
    paper_steps = [
        "vectorise is proved index-wise for the shapes (list), (list, scalar), (scalar, list), (list, list) against map_l / map_ls / map_sl / map_pairs o zf; vy_zip is proved to be zf (position by position, zero fill), a generator with a loop invariant",
        "per element (ground, syntactic): the overload table has no key for a list argument and its default is vectorise(<the same function>, <the same parameters in order>, ctx=ctx); with the vectorise contract and induction on nesting depth this gives the recursive statement. Lazy and eager arguments are both consumed through iteration only (LazyList.__iter__, C13)",
        "documented-vectorising elements that do not use the overload-table idiom (string / bracket / list elements) are not covered and are listed in the evidence",
    ]

    def vectorising(self, W):
        import os
        import vyxal.elements as el
        from .C20 import read_yaml_arities

        docs = read_yaml_arities(os.path.join(W.repo, "documents/knowledge/elements.yaml"))
        return [d["element"] for d in docs if d["vectorise"] and d["element"] in el.elements]

    def ground(self, W, tier, seed):
        import vyxal.elements as el

        mod, _ = W.module_ast("vyxal/elements.py")
        fns = {n.name: n for n in mod.body if isinstance(n, ast.FunctionDef)}
        g = []
        self.covered, self.not_covered = [], []
        for k in self.vectorising(W):
            tpl = el.elements[k][0]
            m = re.search(r"stack\.append\((\w+)\((.*?), ctx=ctx\)\)", tpl) or re.search(r"stack\.append\((\w+)\((lhs), (2), ctx\)\)", tpl)
            if not m or m.group(1) not in fns:
                self.not_covered.append(k)
                continue
            std = el.process_element(getattr(el, m.group(1)), el.elements[k][1])[0]
            if tpl != std and k != "d":  # hand-written templates (ġ, ∆Ŀ, ...) treat a list on top specially
                self.not_covered.append(k)
                continue
            fn = fns[m.group(1)]
            params = [a.arg for a in fn.args.args if a.arg != "ctx"]
            src = ast.unparse(fn)
            if ".get(ts" not in src or fn.name == "log_mold_multi":  # • has a documented (list, list) overload (mold)
                self.not_covered.append(k)
                continue
            any_keys = [ast.unparse(kk) for d in ast.walk(fn) if isinstance(d, ast.Dict) for kk in d.keys if kk is not None and "ts[" in ast.unparse(kk) and "FunctionType" not in ast.unparse(kk)]
            if any_keys:  # a documented `any` overload (slice, index, ...) takes lists whole: not an element-wise element
                self.not_covered.append(k)
                continue
            pat = f"vectorise({fn.name}, {', '.join(params)}, ctx=ctx)"
            ok = pat in src
            # no overload key may mention a list type
            keys_with_list = [ast.unparse(kk) for d in ast.walk(fn) if isinstance(d, ast.Dict) for kk in d.keys if kk is not None and re.search(r"\blist\b|LazyList", ast.unparse(kk))]
            modulo_ok = fn.name == "modulo" and keys_with_list == ["(str, list)"]  # documented string-format overload
            g.append(Ground(f"C08/falls-through-to-vectorise[{k}]", ok, f"{fn.name}: expected the default `{pat}`", witness=dict(element=k, function=fn.name), native=False))
            g.append(Ground(f"C08/no-list-overload[{k}]", not keys_with_list or modulo_ok, f"overload keys naming a list: {keys_with_list}", witness=dict(element=k, function=fn.name, keys=keys_with_list), native=False))
            # ... and nothing in front of the table may answer for lists: a statement that can return before the table lookup
            # must be guarded by a test of the argument kinds (ts) against non-list kinds only
            early = []
            for st in fn.body:
                if isinstance(st, (ast.If, ast.For, ast.While, ast.Try, ast.With, ast.Match)) and any(isinstance(x, ast.Return) for x in ast.walk(st)):
                    test = ast.unparse(st.test) if isinstance(st, ast.If) else type(st).__name__
                    if not (isinstance(st, ast.If) and re.match(r"^ts(\[\d\])? (==|is) ", test) and not re.search(r"\blist\b|LazyList|isinstance|\btype\(|\band\b|\bor\b", test)):
                        early.append(test)
            g.append(Ground(f"C08/no-early-return-for-lists[{k}]", not early, f"{fn.name} can return before its overload table under: {early}", witness=dict(element=k, function=fn.name, tests=early), native=False))
            self.covered.append(k)
        # the classifier vectorise() dispatches on (helpers.primitive_type; the vectorise contracts take its answers as given):
        # every kind of Vyxal value is a scalar or a list, exact irrational / symbolic numbers included
        import sympy
        import vyxal.helpers as H
        from vyxal.LazyList import LazyList

        kinds = [("int", 5, "scalar"), ("negative int", -3, "scalar"), ("sympy Integer", sympy.Integer(7), "scalar"), ("Rational", sympy.Rational(1, 3), "scalar"), ("str", "ab", "scalar"), ("empty str", "", "scalar"),
                 ("exact square root", sympy.sqrt(2), "scalar"), ("pi", sympy.pi, "scalar"), ("sum with a root", 1 + sympy.sqrt(5), "scalar"), ("imaginary unit", sympy.I, "scalar"), ("symbolic expression", sympy.Symbol("x") + 1, "scalar"),
                 ("list", [1, 2], "list"), ("empty list", [], "list"), ("lazy list", LazyList(iter([1])), "list")]
        for nm, v, want in kinds:
            try:
                got = H.primitive_type(v)
                got = "list" if got is list else ("scalar" if got == H.SCALAR_TYPE else repr(got))
            except BaseException as e:  # noqa
                got = f"raised {type(e).__name__}"
            g.append(Ground(f"C08/primitive_type-classifies[{nm}]", got == want, f"primitive_type({v!r}) is {got}, expected {want}", witness=dict(value=repr(v), got=got, expected=want)))
        g.append(Ground("C08/vectorising-elements-found", len(self.covered) >= 60, f"{len(self.covered)} covered, not covered: {self.not_covered}"))
        return g

    # ---- bounded: the real elements on nested / lazy / unequal lists
    def elementwise_search(self, W, tier, seed):
        import vyxal.elements as el
        from vyxal.LazyList import LazyList
        from vyxal.helpers import simplify

        self.ground(W, tier, seed)
        rnd = random.Random(seed)
        scalars = [3, 0, -2, 7, "ab", "", 5]
        lists = [[1, 2, 3], [], [4], [[1, 2], [3]], ["", "a"], [[], [1]], [0, 5, [6, [7]]], ["x", 2], [4, -2], [-1, 4, -3]]
        n = 0

        def run(k, args):
            ns, ctx, stack = rc.fresh_ns((), list(args))
            err, out = rc.run_code(el.elements[k][0], ns, 3)
            if err is not None:
                return ("err", err)
            try:
                v = rc.simp(ns["stack"][-1])
            except Exception as e:  # noqa
                return ("err", str(e))
            if "object at 0x" in repr(v) or "<fn>" in repr(v):
                return ("err", "a lazily evaluated item raised")
            return ("ok", v)

        def lazy(v):
            return LazyList(iter(v)) if isinstance(v, list) else v

        for k in self.covered:
            arity = el.elements[k][1]
            trials = []
            if arity == 1:
                trials = [(l,) for l in lists]
            elif arity == 2:
                trials = [(l, s) for l in lists[:5] for s in scalars[:3]] + [(s, l) for l in lists[:5] for s in scalars[:3]] + [(a, b) for a in lists[:6] for b in lists[:6]]
            else:
                continue
            for args in trials:
                n += 1
                whole = run(k, args)
                if whole[0] == "err":
                    continue
                # expected: apply to items (one level), with zero fill for list-list
                if arity == 1:
                    parts = [run(k, (x,)) for x in args[0]]
                elif isinstance(args[0], list) and isinstance(args[1], list):
                    m = max(len(args[0]), len(args[1]))
                    a = list(args[0]) + [0] * (m - len(args[0]))
                    b = list(args[1]) + [0] * (m - len(args[1]))
                    parts = [run(k, (x, y)) for x, y in zip(a, b)]
                elif isinstance(args[0], list):
                    parts = [run(k, (x, args[1])) for x in args[0]]
                else:
                    parts = [run(k, (args[0], y)) for y in args[1]]
                if any(p[0] == "err" for p in parts):
                    continue
                exp = [p[1] for p in parts]
                if whole[1] != exp:
                    return dict(element=k, arguments=repr(args), result=repr(whole[1])[:200], itemwise=repr(exp)[:200]), n
                lz = run(k, tuple(lazy(a) for a in args))
                if lz[0] == "ok" and lz[1] != whole[1]:
                    return dict(element=k, arguments=repr(args), lazy_result=repr(lz[1])[:200], eager_result=repr(whole[1])[:200]), n
        return None, n

    def bounded(self, W, tier, seed):
        w, n = self.elementwise_search(W, tier, seed)
        return [dict(name="C08/bounded-elementwise", what="every covered vectorising element applied to flat, nested, empty and falsy-item lists in the shapes list, list-scalar, scalar-list, list-list (equal and unequal lengths), eagerly and lazily, compared with the item-wise application (zero fill)", bound="10 lists (negative items included) x 3 scalars, depth <= 3, length <= 3", evaluations=n, label="bounded", failures=[w] if w else [])]

    def replay(self, W, report, ob):
        return self.elementwise_search(W, "quick", 0)[0]

    def stale_search(self, W, key, seed):
        return self.elementwise_search(W, "quick", seed)[0]

    def run_replay(self, path):
        import json

        d = json.load(open(path, encoding="utf-8"))
        print(json.dumps(d, ensure_ascii=False, indent=1)[:1500])
        return 0


PROP = C08()
