"""Native execution of Vyxal programs / templates on the real code (replay side)."""
from __future__ import annotations

import contextlib
import io
import signal


class Timeout(BaseException):
    pass


def _alarm(signum, frame):
    raise Timeout()


def fresh_ns(inputs=(), stack=None, flags=""):
    import vyxal.elements
    import vyxal.helpers
    from vyxal.context import Context

    ctx = Context()
    stack = [] if stack is None else stack
    ctx.inputs[0][0] = list(inputs)
    ctx.stacks.append(stack)
    ns = {**vars(vyxal.elements), **vars(vyxal.helpers), "stack": stack, "ctx": ctx}
    return ns, ctx, stack


def run_code(code, ns, seconds=5):
    """exec python text in ns with stdout captured, stdin at EOF and a hard alarm"""
    import sys

    buf = io.StringIO()
    old = signal.signal(signal.SIGALRM, _alarm)
    signal.alarm(seconds)
    stdin = sys.stdin
    sys.stdin = io.StringIO("")
    try:
        with contextlib.redirect_stdout(buf):
            exec(code, ns)
        return None, buf.getvalue()
    except Timeout:
        return "timeout", buf.getvalue()
    except SystemExit:
        return "exit", buf.getvalue()
    except Exception as e:  # noqa
        return f"{type(e).__name__}: {e}", buf.getvalue()
    finally:
        signal.alarm(0)
        signal.signal(signal.SIGALRM, old)
        sys.stdin = stdin


def run_program(prog, inputs=(), seconds=5):
    from vyxal.transpile import transpile

    ns, ctx, stack = fresh_ns(inputs)
    try:
        code = transpile(prog)
    except Exception as e:  # noqa
        return dict(error=f"transpile: {type(e).__name__}: {e}", stack=None, depths=None, out="")
    err, out = run_code(code, ns, seconds)
    depths = (len(ctx.context_values), len(ctx.inputs), len(ctx.stacks), len(ctx.function_stack))
    return dict(error=err, stack=ns["stack"], depths=depths, out=out, ctx=ctx)


def simp(v):
    from vyxal.helpers import simplify
    from vyxal.LazyList import LazyList
    import types

    if isinstance(v, types.FunctionType):
        return "<fn>"
    try:
        if isinstance(v, (list, LazyList)):
            return [simp(x) for x in v]
        return simplify(v)
    except Exception:  # noqa
        return repr(v)
