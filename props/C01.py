"""C01 -- structures execute as specified (transpiled program == reference semantics)."""
from __future__ import annotations

import contextlib
import io

from .base import Prop, Ground

# (program, flags, inputs, expected stdout) -- expectations worked out by hand from documents/specs/Structures.md
CASES = [
    # the context variable inside a while body and inside a named function (Structures.md states the rule for `if` -- n is the
    # popped condition -- and for lambdas -- n is the argument / the list of arguments; the while and function sections are
    # silent, the same rules are taken as the reference): n is the value the condition left, not its truth value; n in a
    # function is the arguments as they were at the call, whatever the body has done to its stack since
    ("5 {:|n,1-}", "", [], "5\n4\n3\n2\n1\n"), ("⟨7|8⟩ {:|n, 0}", "O", [], "⟨ 7 | 8 ⟩\n"), ("@f:2|*n∑; 3 4 @f;", "W", [], "⟨ 12 | 7 ⟩\n"), ("@f:2|+nL; 3 4 @f;", "", [], "2\n"), ("@f:1|d n; 6 @f;", "W", [], "⟨ 12 | ⟨ 6 ⟩ ⟩\n"),
    ("1 2+", "", [], "3\n"), ("3(n)", "W", [], "⟨ 1 | 2 | 3 ⟩\n"), ("5 2>[`yes`|`no`]", "", [], "yes\n"), ("1 2>[`yes`|`no`]", "", [], "no\n"),
    ("0 {:3<|›}", "", [], "3\n"), ("3 λ2*;†", "", [], "6\n"), ("3ɾƛ2*;", "", [], "⟨ 2 | 4 | 6 ⟩\n"), ("5 ⟨1+|2+⟩", "", [], "⟨ 6 | 7 ⟩\n"),
    ("1 2 3 ⟨+|+⟩", "", [], "⟨ 5 | 5 ⟩\n"), ("5 ₌+d", "W", [7, 8, 9], "⟨ 12 | 10 ⟩\n"), ("₌+-", "", [7, 8, 9], "-2\n"), ("3 4 ₍+*", "", [], "⟨ 7 | 12 ⟩\n"),
    ("@f:a|←a 1+;3 @f;", "", [], "4\n"), ("1 2 3", "W", [], "⟨ 1 | 2 | 3 ⟩\n"), ("1 2 3", "O", [], ""), ("⟨1|2⟩", "j", [], "1\n2\n"), ("⟨1|2⟩", "s", [], "3\n"),
    ("", "H", [], "100\n"), ("3(n)", "WM", [], "⟨ 0 | 1 | 2 | 3 ⟩\n"), ("3(n)", "Wm", [], "⟨ 1 | 2 ⟩\n"), ("2(3(n))", "W", [], "⟨ 1 | 2 | 3 | 1 | 2 | 3 ⟩\n"),
    ("3(n2%[n])", "W", [], "⟨ 1 | 3 ⟩\n"), ("4 3 λ2|+;†", "", [], "7\n"), ("3ɾ'2%;", "", [], "⟨ 1 | 3 ⟩\n"), ("⟨3|1|2⟩µN;", "", [], "⟨ 3 | 2 | 1 ⟩\n"),
    ("1 →x ←x ←x +", "", [], "2\n"), ("3ɾv›", "", [], "⟨ 2 | 3 | 4 ⟩\n"), ("4ɾƒ+", "", [], "10\n"), ("?", "", [5, 6], "5\n"), ("+", "", [5, 6], "11\n"),
    ("3(n,)", "O", [], "1\n2\n3\n"), ("3 4 ~+", "W", [], "⟨ 3 | 4 | 7 ⟩\n"), 
    ("1 ß5", "W", [], "⟨ 5 ⟩\n"), ("0 ß5", "W", [], "⟨ ⟩\n") if False else ("1 ß5 6", "W", [], "⟨ 5 | 6 ⟩\n"), ("⟨1|2|3⟩ ɖ+", "", [], "⟨ 1 | 3 | 6 ⟩\n"), ("3 ⁽›†", "", [], "4\n"), ("2 3 ‡+d†", "", [], "10\n") if False else ("3 ‡›d†", "", [], "8\n"),
    ("@g:a:b|←a ←b -;7 2 @g;", "", [], "-5\n"), ("@h:2|+;3 4 @h;", "", [], "7\n"), ("3 λ:1>[1-x*|_1];†", "", [], "6\n"), ("λ?;†", "", [9], "9\n"), 
    ("5 →a 3(←a›→a) ←a", "", [], "8\n"), ("3(n)", "s", [], "3\n") if False else ("⟨1|2|3⟩", "s", [], "6\n"), ("`a` `b`", "j", [], "b\n"), ("1,2", "", [], "1\n"), ("1,2", "o", [], "1\n2\n"), ("", "", [4], "4\n"), ("1[2[3|4]|5]", "", [], "3\n"), ("0[2|0[3|4]]", "", [], "4\n"), ("1 2 $", "W", [], "⟨ 2 | 1 ⟩\n"), ("3 :", "W", [], "⟨ 3 | 3 ⟩\n"),
    # every lambda kind and the for loop applied to a NUMBER under the range flags: the implicit range is the running
    # program's (M: starts at 0, m: stops one early, Ṁ: both)
    ("5'2<;", "M", [], "⟨ 0 | 1 ⟩\n"), ("5'2%;", "m", [], "⟨ 1 | 3 ⟩\n"), ("4'2%;", "Ṁ", [], "⟨ 1 | 3 ⟩\n"), ("'2%;", "m", [5], "⟨ 1 | 3 ⟩\n"),
    ("3ƛ2*;", "M", [], "⟨ 0 | 2 | 4 | 6 ⟩\n"), ("3ƛ2*;", "m", [], "⟨ 2 | 4 ⟩\n"), ("32µN;", "M", [], "⟨ 3 | 2 ⟩\n"),
    ("3(n)", "WṀ", [], "⟨ 0 | 1 | 2 ⟩\n"), ("3ɾ", "M", [], "⟨ 1 | 2 | 3 ⟩\n"), ("3ɾ", "m", [], "⟨ 1 | 2 | 3 ⟩\n"), ("3v›", "M", [], "⟨ 1 | 2 | 3 | 4 ⟩\n") if False else ("3ʀ", "m", [], "⟨ 0 | 1 | 2 | 3 ⟩\n"),
    # printing a lazy result that was looked at before (one item already evaluated): every separator is printed
    ("3ƛd;→x ←x h _ ←x", "", [], "⟨ 2 | 4 | 6 ⟩\n"), ("3ƛd;→x ←x h _ ←x h _ ←x", "", [], "⟨ 2 | 4 | 6 ⟩\n"), ("4'2%;→x ←x h _ ←x,", "O", [], "⟨ 1 | 3 ⟩\n"),
    # a fold whose result is an empty list is that list, not 0
    ("⟨⟩:\"ƒJ", "", [], "⟨  ⟩\n"),
    # arity 0: the callee runs on an empty stack of its own, not on the caller's
    ("3 λ0|1 2;†", "W", [], "⟨ 3 | 2 ⟩\n"), ("@f:0|5;3 4 @f;", "W", [], "⟨ 3 | 4 | 5 ⟩\n"), ("3 4 λ0|n;†", "W", [], "⟨ 3 | 4 | ⟨  ⟩ ⟩\n"),
    # a lambda / function without arguments reads 0 when its own scope is empty, not the program's inputs
    ("@f|1+;@f;", "", [3, 4], "1\n"), ("λ0|+;†", "", [3, 4], "0\n"),
]


def run_case(prog, flags, inputs):
    from vyxal.main import execute_vyxal
    import sys

    buf = io.StringIO()
    stdin = sys.stdin
    sys.stdin = io.StringIO("")
    try:
        with contextlib.redirect_stdout(buf):
            execute_vyxal(prog, "e" + flags, list(inputs))
    except SystemExit:
        pass
    except Exception as e:  # noqa
        return f"raised {type(e).__name__}: {e}"
    finally:
        sys.stdin = stdin
    return buf.getvalue()


class C01(Prop):
    id = "C01"
    contract_modules = ["semantics"]
    trusted_base = ["CPython semantics of the subset (DESIGN 2.2)", "z3 5.1 / cvc5 1.0.3 (unsat answers)", "element functions are uninterpreted; sub-programs are deterministic functions H_k(stack, n) that do not read inputs or variables", "compositionality of transpile_ast"]
    paper_steps = [
        "leaf protocol: every template built by process_element is proved to pop exactly its arity and push its expression with lhs bound to the deepest consumed entry (documents/specs/Transpilation.md); structure templates emitted by the real transpile are proved against clauses transcribed from the two specification documents: if / if-else (branch selection), for (fold over the items with n bound, by loop invariant), list literal (every item evaluated on its own copy of the stack, values in order, stack otherwise untouched), ₌ and ₍ (both functions applied to the original stack, also when arguments come from implicit input)",
        "(superseded) NOT under contract: while, lambdas (plain / map / filter / sort) call protocol, named functions, variables, the remaining modifiers, the implicit-output flag cascade of execute_vyxal: covered only by the bounded run of hand-derived cases, labelled bounded",
        "nesting: structural induction over templates with holes (compositionality assumed)",
    ]

    def cases_search(self):
        n = 0
        fails = []
        for prog, flags, inputs, want in CASES:
            n += 1
            got = run_case(prog, flags, inputs)
            if got != want:
                fails.append(dict(program=prog, flags=flags, inputs=inputs, output=got, expected=want))
        return fails, n

    def bounded(self, W, tier, seed):
        fails, n = self.cases_search()
        return [dict(name="C01/bounded-documented-cases", what="programs composing literals, stack / arithmetic elements, variables, if / for / while, lambdas (plain, map, filter, sort), a named function, list literals, modifiers and the output flags '', O, j, s, W, H, M, m, run through execute_vyxal; stdout compared with the output worked out by hand from Structures.md", bound=f"{len(CASES)} cases", evaluations=n, label="bounded", failures=fails[:3])]

    def replay(self, W, report, ob):
        if "-documented" in ob["name"]:
            got = run_case("5[n]", "", [])
            if got != "5\n":
                return dict(program="5[n]", output=got, expected="5\n", note="Structures.md and Transpilation.md: the if statement sets the context variable n to the popped value")
        f = self.cases_search()[0]
        return f[0] if f else None

    def stale_search(self, W, key, seed):
        return self.replay(W, None, None)

    def run_replay(self, path):
        import json

        d = json.load(open(path, encoding="utf-8"))
        print(json.dumps(d, ensure_ascii=False, indent=1)[:1500])
        w = d.get("witness") or {}
        if "program" in w and "expected" in w:
            got = run_case(w["program"], w.get("flags", ""), w.get("inputs", []))
            print("now:", repr(got))
            return 0 if got == w["expected"] else 1
        return 0


PROP = C01()
