"""Native helpers for C13 / C14: list model of LazyList observations, counting sources."""
from __future__ import annotations

import itertools


def mk(src):
    import vyxal.helpers  # noqa (import order)
    from vyxal.LazyList import LazyList

    return LazyList(iter(list(src)))


def ops_catalogue():
    """(name, fn(ll) -> observed, model(list) -> expected)"""
    import vyxal.helpers as H

    def idx(i):
        return (f"ll[{i}]", lambda ll: ll[i], lambda s: (s[i % len(s)] if s else 0))

    def neg(i):
        return (f"ll[{i}]", lambda ll: ll[i], lambda s: s[i])

    ops = [idx(0), idx(1), idx(2), idx(4)]
    ops += [("len", lambda ll: len(ll), lambda s: len(s)), ("bool", lambda ll: bool(ll), lambda s: bool(s)),
            ("list", lambda ll: list(ll), lambda s: list(s)), ("listify", lambda ll: ll.listify(), lambda s: list(s)),
            ("1 in", lambda ll: bool(1 in ll), lambda s: 1 in s), ("7 in", lambda ll: bool(7 in ll), lambda s: 7 in s),
            ("== [0,1]", lambda ll: ll == [0, 1], lambda s: s == [0, 1]), ("count(1)", lambda ll: ll.count(1), lambda s: s.count(1)),
            ("== fresh lazy", lambda ll: ll == mk(list(ll._verif_model)), lambda s: True),
            ("fresh lazy ==", lambda ll: mk(list(ll._verif_model)) == ll, lambda s: True),
            ("has_ind(1)", lambda ll: ll.has_ind(1), lambda s: 0 <= 1 < len(s)),
            ("reversed", lambda ll: list(ll.reversed()), lambda s: s[::-1]),
            ("copy", lambda ll: list(H.deep_copy(ll)), lambda s: list(s)),
            ("+[9]", lambda ll: list(ll + [9]), lambda s: s + [9]),
            ("ll[1:]", lambda ll: list(ll[1:]), lambda s: s[1:]),
            ("copy-peek", "copy-peek", None),
            ("next", "next", None)]
    return ops, [neg(-1), neg(-2)]


def run_history(src, hist, ops, negs):
    """-> None or a witness dict"""
    import vyxal.helpers as H

    ll = mk(src)
    model = list(src)
    ll._verif_model = model  # for the two equality observations against a fresh (unobserved) lazy list over the same items
    consumed_by_next = 0
    trace = []
    copies = []
    for name in hist:
        entry = [o for o in ops + negs if o[0] == name][0]
        if entry[1] == "next":
            continue
        if entry[1] == "copy-peek":
            pass
        if name.startswith("ll[-") and len(model) < int(name[4:-1]):
            continue
        if name == "copy":
            copies.append(H.deep_copy(ll))
        if name == "copy-peek":  # a copy whose first item is read at once: its iterator over the original stays suspended
            c = H.deep_copy(ll)
            copies.append(c)
            try:
                got = c[0]
            except Exception as e:  # noqa
                got = f"raised {type(e).__name__}"
            exp = model[0] if model else 0
            trace.append(name)
            if got != exp:
                return dict(source=list(src), history=trace, observation=name, got=repr(got), expected=repr(exp))
            continue
        try:
            got = entry[1](ll)
        except Exception as e:  # noqa
            got = f"raised {type(e).__name__}"
        exp = entry[2](model)
        trace.append(name)
        if got != exp:
            return dict(source=list(src), history=trace, observation=name, got=repr(got), expected=repr(exp))
    try:
        final = list(ll)
    except Exception as e:  # noqa
        final = f"raised {type(e).__name__}"
    if final != model:
        return dict(source=list(src), history=trace, observation="denotation after the history (list(ll))", got=repr(final), expected=repr(model))
    for c in copies:
        got = list(c)
        if got != model:
            return dict(source=list(src), history=trace, observation="a copy taken during the history, read at the end", got=repr(got), expected=repr(model))
    return None


def explore(maxlen_src=3, maxhist=3, budget=None):
    ops, negs = ops_catalogue()
    names = [o[0] for o in ops if o[1] != "next"] + [n[0] for n in negs]
    n = 0
    for L in range(0, maxlen_src + 1):
        for src in itertools.product([0, 1, 2], repeat=L):
            for hl in range(1, maxhist + 1):
                for hist in itertools.product(names, repeat=hl):
                    n += 1
                    w = run_history(src, hist, ops, negs)
                    if w:
                        return w, n
                    if budget and n >= budget:
                        return None, n
    return None, n


class Counting:
    """infinite source 1, 2, 3, ... that counts how many items were pulled"""

    def __init__(self):
        self.pulls = 0

    def __iter__(self):
        return self

    def __next__(self):
        self.pulls += 1
        return self.pulls


CATALOGUE = [
    # (name, program run with the infinite counting list on the stack, a, b): first n items need <= a*n+b pulls
    ("map", "ƛ2*;", 1, 3), ("filter", "'2%;", 2, 4), ("zip-self", ":Z", 1, 3), ("interleave", ":Y", 1, 3), ("prefixes", "K", 1, 3),
    ("cumulative-sums", "¦", 1, 3), ("deltas", "¯", 1, 4), ("windows", "2l", 1, 4), ("chunks", "2ẇ", 2, 4), ("flatten", "f", 1, 3),
    ("uniquify", "U", 1, 3), ("enumerate", "ė", 1, 3), ("prepend", "0p", 1, 3), ("slice-from-offset", "3ȯ", 1, 6), ("add-scalar", "2+", 1, 3),
    ("increment", "›", 1, 3), ("add-self", ":+", 1, 3), ("halve", "½", 1, 3), ("negate", "N", 1, 3), ("map-then-filter", "ƛ3*;'2%;", 2, 6),
    ("string-chunks", "ƛS;2ẇ", 2, 4), ("first-n-slice", "{n}Ẏ", 1, 3), ("slice-1-to-n", "{n}Ż", 1, 4), ("map-then-first-n", "ƛ2*;{n}Ẏ", 1, 3),
    ("map-then-windows", "ƛ›;2l", 1, 5), ("cumsum-then-deltas", "¦¯", 1, 5), ("zip-then-map", ":Zƛh;", 1, 4),
    ("remove-listed-values (none occurs)", "⟨0⟩F", 1, 3), ("remove-listed-values (occurs late)", "⟨500⟩F", 1, 3), ("remove-listed-values (occurs early)", "⟨2|4⟩F", 1, 6),
    ("double-then-windows", "2*3l", 1, 6), ("insert-at-position", "2 9Ṁ", 1, 4), ("append", "0J", 1, 3), ("take-while-less-than", "{n}›Þ<", 1, 4),
]


# elements (with a scalar second argument where dyadic) that, applied to an infinite list on the pinned tree, deliver the
# first 20 items of their result within 2*20+10 pulls: found by a sweep over the whole element table; each must stay so
WIDE = ["2$", "2%", "2*", "2+", "2-", "2/", "2<", "2=", "2>", "2J", "2Y", "2Z", "2e", "2l", "2o", "2p", "2r", "2Þf", "2ÞṀ", "2ġ", "2ƈ", "2Ǒ", "2Ǔ", "2ȯ", "2Ḋ", "2Ḟ", "2ḭ", "2ṡ", "2ẇ", "2Ẋ", "2•", "2↲", "2↳", "2∆Q", "2∆W", "2∆q", "2∆±", "2∆Ŀ", "2∆ƈ", "2∨", "2∪", "2≤", "2≥", "2⊍", "2⋎", "2⋏", "2⟇", "2⟑", "2꘍", "3$", "3%", "3*", "3+", "3-", "3/", "3<", "3=", "3>", "3J", "3Y", "3Z", "3e", "3l", "3o", "3p", "3r", "3Þf", "3ÞṀ", "3ġ", "3ƈ", "3Ǒ", "3Ǔ", "3ȯ", "3Ḋ", "3ḭ", "3ṡ", "3•", "3↲", "3↳", "3∆Q", "3∆W", "3∆q", "3∆±", "3∆Ŀ", "3∆ƈ", "3∨", "3∪", "3≤", "3≥", "3⊍", "3⋎", "3⋏", "3⟇", "3⟑", "3꘍", ":", "C", "D", "H", "K", "N", "T", "U", "b", "d", "f", "m", "y", "z", "¡", "¦", "¨^", "¨□", "¯", "±", "²", "½", "ÞU", "æ", "øB", "øF", "øb", "øe", "øḂ", "øḃ", "øṁ", "ċ", "ė", "Ġ", "Ǎ", "ǎ", "Ǐ", "ǐ", "ǒ", "ȧ", "ɽ", "ɾ", "ʀ", "ʁ", "ḃ", "Ḣ", "ḣ", "ṙ", "Ṡ", "‹", "›", "↵", "∆C", "∆D", "∆E", "∆K", "∆L", "∆R", "∆S", "∆T", "∆c", "∆e", "∆i", "∆l", "∆o", "∆p", "∆s", "∆t", "∆¢", "∆²", "∆Ċ", "∆ċ", "∆Ė", "∆ė", "∆τ", "∆Ṗ", "∆ṗ", "∆ṫ", "√", "∷", "⌈", "⌊", "⌐", "ꜝ"]


def pulls_for(prog, n, seconds=5):
    """run prog on an instrumented infinite source, take n items of the result; -> (pulls, error)"""
    import vyxal.helpers  # noqa
    from vyxal.LazyList import LazyList
    from vyxal.transpile import transpile
    from . import runcommon as rc

    src = Counting()
    ll = LazyList(src, isinf=True)
    ns, ctx, stack = rc.fresh_ns((), [ll])
    if "{n}" in prog:  # the program itself takes the first n items; read the (finite) result completely
        code = transpile(prog.replace("{n}", str(n) + " ")) + "\n__top = stack[-1]\n__got = list(__top) if not isinstance(__top, (int, str)) else __top\n"
    else:
        code = transpile(prog) + "\n__top = stack[-1]\n__got = [__top[i] for i in range(%d)]\n" % n
    err, out = rc.run_code(code, ns, seconds)
    return src.pulls, err
