"""C16 -- list builtins obey their defining laws."""
from __future__ import annotations

import itertools
import random

from .base import Prop, Ground


class C16(Prop):
    id = "C16"
    contract_modules = ["folds", "vectorise", "laziness", "laziness2", "laziness4", "lazylist"]
    extra_keys = ["vyxal/elements.py::vy_zip"]
    trusted_base = ["sorted / itertools (permutations, product, combinations, zip_longest, groupby) meet their definitions -- assumed, sampled by the bounded laws", "safe_apply(f, ...), subtract(a, b), deep_copy(x) are uninterpreted pure functions of their arguments", "`x in list` is membership up to equality of abstract values", "a consumer snapshots a yielded list at the yield (LazyList.__next__ -> vyxalify copies lists)", "z3 5.1 (unsat answers)"]
    paper_steps = [
        "under contract (proved for every list and every function): helpers.foldl == folds, helpers.scanl == scans (cumulative reduction, generator with a peeled first iteration and a loop invariant), elements.vy_zip == zf (zip with zero fill); the generators of deltas (item j = subtract(lhs[j+1], lhs[j])), prefixes (item j = list of copies of lhs[0..j]), uniquify (first occurrences in order, with the membership lemma uq_has_the_same_members) map (item j = f(lhs[j])) and interleave (alternate, then the rest of the longer list; two iterators advanced by next()) against their defining recursions, each by a loop invariant over the yielded sequence; sum and cumulative sums as wrapper obligations over foldl / scanl with the element `add`",
        "zip / interleave of a lazy list with itself (x:Z, x:Y) run two iterators over one list in lock-step: LazyList.__iter__ is proved to yield every item exactly once and in order whatever other references pull in between (contract __iter__#interleaved, rely: the cache only grows)",
        "every other law of the property (sort, reversal of lazy lists, max/min, transpose, uninterleave, wrap, sublists, powerset, permutations, cartesian product, counting, grouping, grading) is covered by the bounded stand-in only: executable laws on exhaustive small lists -- labelled bounded, not proved",
    ]

    def laws(self):
        import vyxal.helpers as H
        import vyxal.elements as el
        from vyxal.context import Context
        from .runcommon import simp

        ctx = Context()

        def S(v):
            return simp(v)

        def add(a, b, ctx=None):
            return a + b

        L = []
        L.append(("sort is the ordered permutation", lambda xs: S(el.vy_sort(xs, ctx)) == sorted(xs)))
        L.append(("reverse is an involution", lambda xs: S(el.reverse(el.reverse(xs, ctx), ctx)) == xs and S(el.reverse(xs, ctx)) == xs[::-1]))
        L.append(("uniquify keeps first occurrences in order", lambda xs: S(el.uniquify(xs, ctx)) == list(dict.fromkeys(xs))))
        L.append(("flatten concatenates leaves", lambda xs: S(el.deep_flatten([xs, [xs, 7]], ctx)) == xs + xs + [7]))
        L.append(("sum is the fold of +", lambda xs: S(el.vy_sum(xs, ctx)) == sum(xs)))
        L.append(("product is the fold of *", lambda xs: not xs or S(el.product(xs, ctx)) == __import__("math").prod(xs)))
        L.append(("max / min", lambda xs: not xs or (S(el.monadic_maximum(xs, ctx)) == max(xs) and S(el.monadic_minimum(xs, ctx)) == min(xs))))
        # among items that tie under the key, the first one is the maximum / minimum (Python's max / min with a key, which the
        # element documentation names as the definition): the items are made distinguishable by pairing them with their position
        L.append(("maximum / minimum by last item take the first among ties", lambda xs: not xs or (S(el.max_by_tail([[i, x] for i, x in enumerate(xs)], ctx)) == list(max(enumerate(xs), key=lambda p: p[1])) and S(el.min_by_tail([[i, x] for i, x in enumerate(xs)], ctx)) == list(min(enumerate(xs), key=lambda p: p[1])))))
        L.append(("cumulative sums == accumulate", lambda xs: not xs or S(el.cumulative_sum(xs, ctx)) == list(itertools.accumulate(xs))))
        L.append(("deltas", lambda xs: S(el.deltas(xs, ctx)) == [b - a for a, b in zip(xs, xs[1:])]))
        L.append(("zip pairs positions with zero fill", lambda xs: S(el.vy_zip(xs, xs[:1], ctx)) == [[a, b] for a, b in itertools.zip_longest(xs, xs[:1], fillvalue=0)]))
        L.append(("transpose", lambda xs: S(el.transpose([xs, xs], ctx=ctx)) == [list(t) for t in zip(xs, xs)]))
        L.append(("interleave / uninterleave are inverse", lambda xs: len(xs) % 2 or S(el.interleave(*S(el.uninterleave(xs, ctx)), ctx)) == xs))
        L.append(("wrap chunks", lambda xs: S(el.wrap(xs, 2, ctx)) == [xs[i:i + 2] for i in range(0, len(xs), 2)]))
        L.append(("prefixes", lambda xs: S(H.prefixes(xs, ctx)) == [xs[:i + 1] for i in range(len(xs))]))
        L.append(("sublists are the contiguous non-empty slices", lambda xs: sorted(S(el.sublists(xs, ctx))) == sorted(xs[i:j] for i in range(len(xs)) for j in range(i + 1, len(xs) + 1))))
        L.append(("powerset has 2^n members, each subsequence once", lambda xs: len(xs) > 4 or sorted(S(el.powerset(xs, ctx))) == sorted(list(c) for r in range(len(xs) + 1) for c in itertools.combinations(xs, r))))
        L.append(("permutations", lambda xs: len(xs) > 4 or sorted(S(el.permutations(xs, ctx))) == sorted(list(p) for p in itertools.permutations(xs))))
        L.append(("cartesian product", lambda xs: sorted(S(el.cartesian_product(xs[:3], xs[:2], ctx))) == sorted([a, b] for a in xs[:3] for b in xs[:2])))
        L.append(("count / contains", lambda xs: all(S(el.count_item(xs, v, ctx)) == xs.count(v) and bool(S(el.contains(xs, v, ctx))) == (v in xs) for v in (-1, 0, 2))))
        L.append(("counts", lambda xs: sorted(S(el.counts(xs, ctx))) == sorted([k, xs.count(k)] for k in set(xs))))
        L.append(("group consecutive", lambda xs: S(el.group_consecutive(xs, ctx)) == [list(g) for _, g in itertools.groupby(xs)]))
        L.append(("grade up / down are the stable sorting permutations", lambda xs: S(el.grade_up(xs, ctx)) == sorted(range(len(xs)), key=xs.__getitem__) and S(el.grade_down(xs, ctx)) == sorted(range(len(xs)), key=xs.__getitem__, reverse=True)))
        L.append(("first k items / slices are the list's own slices (k = 0 included)", lambda xs: all(S(el.zero_slice(xs, k, ctx)) == xs[:k] for k in range(0, len(xs) + 2)) and all(S(el.index(xs, [a, b], ctx)) == xs[a:b] for a in range(0, 3) for b in range(0, 4))))
        L.append(("wrap by a list of sizes (a zero size gives an empty chunk)", lambda xs: S(el.wrap(xs, [0, len(xs)], ctx)) == [[], xs] and S(el.wrap(xs, [1, 0], ctx)) == [xs[:1], []]))
        L.append(("reduce by + is the fold", lambda xs: not xs or S(H.foldl(add, xs, ctx=ctx)) == sum(xs)))
        L.append(("cumulative reduce", lambda xs: not xs or S(H.scanl(add, xs, ctx)) == list(itertools.accumulate(xs))))
        return L

    def law_search(self, tier, seed):
        maxlen = 4 if tier != "thorough" else 5
        dom = [-2, -1, 0, 1, 2, 3] if tier == "thorough" else [-1, 0, 1, 2]
        lists = [list(t) for n in range(0, maxlen + 1) for t in itertools.product(dom, repeat=n)]
        rnd = random.Random(seed)
        lists += [[rnd.randrange(-2, 4) for _ in range(rnd.randrange(5, 10))] for _ in range(40)]
        n = 0
        fails = []
        for name, law in self.laws():
            for xs in lists:
                n += 1
                try:
                    ok = law(list(xs))
                except Exception as e:  # noqa
                    ok = f"raised {type(e).__name__}: {e}"
                if ok is not True and ok != 1:
                    fails.append(dict(law=name, list=xs, outcome=repr(ok)[:200]))
                    break  # one witness per law
        return fails, n

    def bounded(self, W, tier, seed):
        fails, n = self.law_search(tier, seed)
        return [dict(name="C16/bounded-laws", what=f"{len(self.laws())} executable laws (itertools / builtins as reference) on the real elements", bound="all integer lists of length <= 4 over {-1,0,1,2} (quick) / <= 5 over -2..3 (thorough) plus 40 random longer lists", evaluations=n, label="bounded", failures=fails)]

    def replay(self, W, report, ob):
        f = [x for x in self.law_search("quick", 0)[0] if not (x["law"] == "permutations" and x["list"] == [])]
        return f[0] if f else None

    def stale_search(self, W, key, seed):
        return self.replay(W, None, None)

    def run_replay(self, path):
        import json

        d = json.load(open(path, encoding="utf-8"))
        print(json.dumps(d, ensure_ascii=False, indent=1)[:1500])
        return 0


PROP = C16()
