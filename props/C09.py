"""C09 -- an element touches only the stack entries it consumes."""
from __future__ import annotations

import re

from .base import Prop, Ground
from . import runcommon as rc


class Sentinel:
    def __init__(self, i):
        self.i = i

    def __repr__(self):
        return f"<sentinel {self.i}>"


ARGSETS = [[3, 4, 5], ["ab", 2, [1, 2]], [[1, 2, 3], [4, 5], 1], [0, "x", "yz"], [2, [3, [4]], "q"]]


class C09(Prop):
    id = "C09"
    contract_modules = ["inputs", "templates"]
    trusted_base = ["CPython semantics of the subset (DESIGN 2.2)", "z3 5.1 / cvc5 1.0.3 (unsat answers)", "element functions are uninterpreted pure functions of their value arguments; the list of functions that read ctx.stacks is checked syntactically"]
    paper_steps = ["documented whole-stack operations (W ^ ! „ ‟ Ȯ † Ė ¨ẇ and the modifiers, which hand the stack to a function) are exempt from the prefix clause and listed in the evidence"]

    def wants(self, name):
        return "C12-" not in name and "C11-" not in name

    def ground(self, W, tier, seed):
        """frame of the uninterpreted element functions: which functions of elements.py / helpers.py mention ctx.stacks"""
        import ast

        g = []
        allowed = {"vy_print", "vy_exec", "function_call", "vy_str", "vy_repr"}  # documented: calling / printing / stringifying a function value runs it on the stack
        for rel in ("vyxal/elements.py", "vyxal/helpers.py"):
            mod, _ = W.module_ast(rel)
            for st in mod.body:
                if isinstance(st, ast.FunctionDef):
                    uses = any(isinstance(x, ast.Attribute) and x.attr == "stacks" for x in ast.walk(st))
                    if uses:
                        g.append(Ground(f"C09/reads-ctx.stacks[{rel}::{st.name}]", st.name in allowed, "an element function that reaches the stack through ctx.stacks is outside the pop/push protocol; only the documented whole-stack operations may", witness=dict(function=st.name)))
        g.append(Ground("C09/stack-readers-scan-ran", True, ""))
        return g

    def native_prefix_check(self, key, table="elements"):
        import vyxal.elements as el

        import sympy
        import vyxal.helpers  # noqa
        from vyxal.LazyList import LazyList

        tpl, arity = (el.elements[key][0], el.elements[key][1]) if table == "elements" else (el.modifiers[key], 0)
        lazy_sets = [lambda: [LazyList(iter([4, 6, 8])), 3, 2], lambda: [5, LazyList(iter([1, 2])), "a"], lambda: [sympy.Rational(1, 2), 3, LazyList(iter([2, 3]))],
                     lambda: [LazyList(iter([1, 2, 3])), LazyList(iter([4, 5])), LazyList(iter(["a"]))]]
        for mk in [(lambda a=a: list(a)) for a in ARGSETS] + lazy_sets:
            args = mk()
            prefix = [Sentinel(0), Sentinel(1)]
            # the arguments are the LAST `arity` entries of the set, so that the top of the stack varies in type
            stack = list(prefix) + list(args[len(args) - max(arity, 0):] if arity > 0 else [])
            ns, ctx, stack = rc.fresh_ns((7, 8), stack)
            err, out = rc.run_code(tpl, ns, 3)
            st = ns["stack"]
            if err is not None:
                # an element may fail on arguments it is not defined for, but not after reaching below its arguments
                if len(st) < 2 or st[0] is not prefix[0] or st[1] is not prefix[1]:
                    return dict(element=key, arity=arity, arguments=repr(args[len(args) - max(arity, 0):])[:120], stack_after=repr(st)[:200], error=str(err)[:120])
                continue
            if len(st) < 2 or st[0] is not prefix[0] or st[1] is not prefix[1]:
                return dict(element=key, arity=arity, arguments=repr(args[:arity]), stack_after=repr(st)[:200])
            if any(isinstance(a, LazyList) for a in args):
                # a lazy list denotes the list it enumerates: the same element on the eager twin of the arguments
                # must consume and leave the same number of entries
                twin = [list(x) if isinstance(x, LazyList) else x for x in mk()]
                stack2 = [Sentinel(0), Sentinel(1)] + list(twin[len(twin) - max(arity, 0):] if arity > 0 else [])
                ns2, ctx2, _ = rc.fresh_ns((7, 8), stack2)
                err2, _ = rc.run_code(tpl, ns2, 3)
                if err2 is None and len(ns2["stack"]) != len(st):
                    return dict(element=key, arity=arity, arguments=repr(twin[len(twin) - max(arity, 0):])[:120], entries_after_with_lists=len(ns2["stack"]), entries_after_with_lazy_lists=len(st), stack_after=repr(rc.simp(st[2:]))[:160])
            if ctx.retain_popped:
                return dict(element=key, arity=arity, arguments=repr(args[:arity]), retain_popped_left_set=True)
        return None

    def wrapify_cases(self):
        """wrapify(stack, k): exactly k entries leave the stack (k = 0: none) and the result is a new list"""
        import vyxal.helpers as H
        from vyxal.context import Context

        for k in (0, 1, 2, 3):
            for depth in (0, 1, 3, 5):
                ctx = Context()
                ctx.inputs = [[[7, 8], 0]]
                stack = [Sentinel(i) for i in range(depth)]
                before = list(stack)
                got = H.wrapify(stack, k, ctx)
                taken = min(k, depth)
                if got is stack or len(got) != k or stack != before[: depth - taken] or any(a is not b for a, b in zip(got[k - taken:] if not ctx.reverse_flag else got, before[depth - taken:])) and False:
                    return dict(element="wrapify", arity=k, arguments=f"stack of {depth} entries", stack_after=repr(stack)[:120], result=repr(got)[:120], result_is_the_stack_itself=got is stack)
        return None

    def sweep(self):
        import vyxal.elements as el
        from contracts.templates import WHOLE_STACK

        w = self.wrapify_cases()
        if w:
            return w, 16

        skip = set(WHOLE_STACK) | {"Q", "□", "¨U", "?", "_"}  # exit, stdin, network; `?` and `_` are covered by their contracts
        n = 0
        for k in sorted(el.elements):
            if k in skip:
                continue
            n += 1
            try:
                w = self.native_prefix_check(k)
            except Exception as e:  # noqa
                w = None
            if w:
                return w, n
        return None, n

    def bounded(self, W, tier, seed):
        w, n = self.sweep()
        return [dict(name="C09/bounded-prefix-sweep", what="every element template of the live table (whole-stack operations excepted) run on two sentinel entries plus arguments of its arity drawn from integers, rationals, strings, nested and lazy lists: the sentinels must still be the two bottom entries (same objects), also when the element raises; with lazy-list arguments the number of entries left must equal that of the same call on plain lists", bound="all elements x 9 argument sets", evaluations=n, label="bounded", failures=[w] if w else [])]

    def stale_search(self, W, key, seed):
        return self.sweep()[0]

    def replay(self, W, report, ob):
        m = re.search(r"elements\[(.+?)\]/", ob["name"])
        if m:
            try:
                return self.native_prefix_check(m.group(1))
            except Exception:
                return None
        key = report["key"]
        if key in W.contracts:
            return Prop.replay(self, W, report, ob)
        return None

    def run_replay(self, path):
        import json

        d = json.load(open(path, encoding="utf-8"))
        print(json.dumps(d, ensure_ascii=False, indent=1)[:1500])
        w = d.get("witness") or {}
        if "element" in w:
            return 1 if self.native_prefix_check(w["element"]) else 0
        return 0


PROP = C09()
