"""C09 -- an element touches only the stack entries it consumes."""
from __future__ import annotations

import re

from .base import Prop, Ground
from . import runcommon as rc


class Sentinel:
    def __init__(self, i):
        self.i = i

    def __repr__(self):
        return f"<sentinel {self.i}>"


ARGSETS = [[3, 4, 5], ["ab", 2, [1, 2]], [[1, 2, 3], [4, 5], 1], [0, "x", "yz"], [2, [3, [4]], "q"]]


class C09(Prop):
    id = "C09"
    contract_modules = ["inputs", "templates"]
    trusted_base = ["CPython semantics of the subset (DESIGN 2.2)", "z3 5.1 / cvc5 1.0.3 (unsat answers)", "element functions are uninterpreted pure functions of their value arguments; the list of functions that read ctx.stacks is checked syntactically"]
    paper_steps = ["documented whole-stack operations (W ^ ! „ ‟ Ȯ † Ė ¨ẇ and the modifiers, which hand the stack to a function) are exempt from the prefix clause and listed in the evidence"]

    def wants(self, name):
        return "C12-" not in name and "C11-" not in name

    def ground(self, W, tier, seed):
        """frame of the uninterpreted element functions: which functions of elements.py / helpers.py mention ctx.stacks"""
        import ast

        g = []
        allowed = {"vy_print", "vy_exec", "function_call", "vy_str", "vy_repr"}  # documented: calling / printing / stringifying a function value runs it on the stack
        for rel in ("vyxal/elements.py", "vyxal/helpers.py"):
            mod, _ = W.module_ast(rel)
            for st in mod.body:
                if isinstance(st, ast.FunctionDef):
                    uses = any(isinstance(x, ast.Attribute) and x.attr == "stacks" for x in ast.walk(st))
                    if uses:
                        g.append(Ground(f"C09/reads-ctx.stacks[{rel}::{st.name}]", st.name in allowed, "an element function that reaches the stack through ctx.stacks is outside the pop/push protocol; only the documented whole-stack operations may", witness=dict(function=st.name)))
        g.append(Ground("C09/stack-readers-scan-ran", True, ""))
        return g

    def native_prefix_check(self, key, table="elements"):
        import vyxal.elements as el

        tpl, arity = (el.elements[key][0], el.elements[key][1]) if table == "elements" else (el.modifiers[key], 0)
        for args in ARGSETS:
            prefix = [Sentinel(0), Sentinel(1)]
            stack = list(prefix) + list(args[: max(arity, 0)])
            ns, ctx, stack = rc.fresh_ns((7, 8), stack)
            err, out = rc.run_code(tpl, ns, 3)
            if err is not None:
                continue
            st = ns["stack"]
            if len(st) < 2 or st[0] is not prefix[0] or st[1] is not prefix[1]:
                return dict(element=key, arity=arity, arguments=repr(args[:arity]), stack_after=repr(st)[:200])
            if ctx.retain_popped:
                return dict(element=key, arity=arity, arguments=repr(args[:arity]), retain_popped_left_set=True)
        return None

    def replay(self, W, report, ob):
        m = re.search(r"elements\[(.+?)\]/", ob["name"])
        if m:
            try:
                return self.native_prefix_check(m.group(1))
            except Exception:
                return None
        key = report["key"]
        if key in W.contracts:
            return Prop.replay(self, W, report, ob)
        return None

    def run_replay(self, path):
        import json

        d = json.load(open(path, encoding="utf-8"))
        print(json.dumps(d, ensure_ascii=False, indent=1)[:1500])
        w = d.get("witness") or {}
        if "element" in w:
            return 1 if self.native_prefix_check(w["element"]) else 0
        return 0


PROP = C09()
