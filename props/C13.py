"""C13 -- a finite lazy list is indistinguishable from the list it enumerates."""
from __future__ import annotations

from .base import Prop, Ground
from . import lazycommon as lc


class C13(Prop):
    id = "C13"
    contract_modules = ["lazylist", "lazylist2"]
    trusted_base = ["CPython semantics of the subset (DESIGN 2.2)", "z3 5.1 / cvc5 1.0.3 (unsat answers)", "vyxalify is the identity on Vyxal values", "generator protocol: the pull-count clauses of __iter__ assume that a consumer does not touch the lazy list between two resumptions; that it yields every item once and in order is also proved WITHOUT that assumption (contract __iter__#interleaved: other references may pull in between)"]
    paper_steps = ["history quantifier: every method is proved from an arbitrary state satisfying the representation invariant generated == src[:k] and re-establishes it with src unchanged, so no sequence of observations can change a later observation's result"]

    def wants(self, name):
        return "C14-" not in name and "C12-" not in name

    def ground(self, W, tier, seed):
        """slice forms and the remaining methods outside the contracts: single observations on fresh lists (exhaustive over sources of length <= 3)"""
        import itertools
        import vyxal.helpers as H

        g = []
        forms = [("ll[0:5]", lambda ll: ll[0:5], lambda s: s[0:5]), ("ll[-2:]", lambda ll: list(ll[-2:]), lambda s: s[-2:]), ("ll[::-1]", lambda ll: list(ll[::-1]), lambda s: s[::-1]),
                 ("ll[1:2]", lambda ll: ll[1:2], lambda s: s[1:2]), ("ll[0:2]", lambda ll: ll[0:2], lambda s: s[0:2]), ("ll[:-1]", lambda ll: ll[:-1], lambda s: s[:-1]), ("ll[2::-1]", lambda ll: list(ll[2::-1]), lambda s: s[2::-1]),
                 ("ll[3:1:-1]", lambda ll: list(ll[3:1:-1]), lambda s: s[3:1:-1]), ("ll[-3:-1]", lambda ll: ll[-3:-1], lambda s: s[-3:-1]), ("ll[1:]", lambda ll: list(ll[1:]), lambda s: s[1:]),
                 ("ll[:2]", lambda ll: ll[:2], lambda s: s[:2]), ("ll[::2]", lambda ll: list(ll[::2]), lambda s: s[::2]), ("ll[1::2]", lambda ll: list(ll[1::2]), lambda s: s[1::2]),
                 ("ll[-1::-2]", lambda ll: list(ll[-1::-2]), lambda s: s[-1::-2]), ("ll[0:3:2]", lambda ll: ll[0:3:2], lambda s: s[0:3:2])]
        for name, f, m in forms:
            bad = None
            for L in range(0, 4):
                for src in itertools.product([0, 1, 2], repeat=L):
                    try:
                        got = f(lc.mk(src))
                        got = list(got) if not isinstance(got, list) else got
                    except Exception as e:  # noqa
                        got = f"raised {type(e).__name__}"
                    if got != m(list(src)):
                        bad = bad or dict(source=list(src), observation=name, got=repr(got), expected=repr(m(list(src))))
            g.append(Ground(f"C13/slice[{name}]", bad is None, "" if bad is None else f"{bad}", witness=bad))
        return g

    def bounded(self, W, tier, seed):
        depth = 3 if tier != "thorough" else 4
        w, n = lc.explore(3, depth, budget=400000 if tier != "thorough" else None)
        return [dict(name="C13/bounded-observation-histories", what="every history of observations (index with wrap, negative index, len, bool, iteration, membership, equality with a plain list and with a fresh lazy list over the same items on either side, count, reversal, copy, concatenation, open slice, has_ind) on every source list over {0,1,2}, compared with the plain list; denotation and copies re-read at the end", bound=f"sources of length <= 3, histories of length <= {depth}, 21 operations", evaluations=n, label="bounded", failures=[w] if w else [])]

    def replay(self, W, report, ob):
        w, n = lc.explore(3, 3, budget=150000)
        return w

    def stale_search(self, W, key, seed):
        w, n = lc.explore(3, 3, budget=150000)
        return w

    def run_replay(self, path):
        import json

        d = json.load(open(path, encoding="utf-8"))
        print(json.dumps(d, ensure_ascii=False, indent=1)[:1500])
        w = d.get("witness") or {}
        if "history" in w:
            ops, negs = lc.ops_catalogue()
            r = lc.run_history(w["source"], w["history"], ops, negs)
            print("now:", r)
            return 1 if r else 0
        return 0


PROP = C13()
