"""Native helpers shared by the lexer/parser properties: program generator, parse shapes,
replay of lexer and dispatch counterexamples on the real code."""
from __future__ import annotations

import itertools
import random
import re


def real():
    from vyxal.lexer import tokenise, Token, TokenType
    from vyxal.parse import parse
    from vyxal import structure

    return tokenise, parse, Token, TokenType, structure


LIT = {"string", "character", "compressed_number", "compressed_string", "codepage_number"}


def shape(x, abstract=True):
    """parse tree as nested tuples; literal payloads replaced by their kind"""
    tokenise, parse, Token, TokenType, structure = real()
    if isinstance(x, Token):
        if abstract and x.name.value in LIT:
            return ("tok", x.name.value)
        return ("tok", x.name.value, x.value)
    if isinstance(x, structure.Structure):
        extra = ()
        if hasattr(x, "modifier"):
            extra = (x.modifier,)
        if isinstance(x, (structure.BreakStatement, structure.RecurseStatement)):
            return (type(x).__name__, getattr(x.parent_structure, "__name__", None))
        return (type(x).__name__,) + extra + tuple(shape(b, abstract) for b in x.branches)
    if isinstance(x, (list, tuple)):
        return tuple(shape(b, abstract) for b in x)
    return ("v", repr(x))


def parse_shape(src, abstract=True):
    tokenise, parse, *_ = real()
    try:
        return shape(parse(tokenise(src)), abstract)
    except Exception as e:  # noqa
        return ("raises", type(e).__name__)


def literal_text(kind, payload):
    """source text of a literal of the given token kind with this payload (None if the payload
    is not in the kind's payload language)"""
    if kind == "string":
        if "`" in re.sub(r"\\.", "", payload, flags=re.S) or re.sub(r"\\.", "", payload, flags=re.S).endswith("\\"):
            return None
        return "`" + payload + "`"
    if kind == "character":
        return "\\" + payload if len(payload) == 1 else None
    if kind == "compressed_number":
        return "»" + payload + "»" if "»" not in payload else None
    if kind == "compressed_string":
        return "«" + payload + "«" if "«" not in payload else None
    if kind == "codepage_number":
        return "⁺" + payload if len(payload) == 1 else None
    if kind == "two_char":
        return "‛" + payload if len(payload) == 2 else None
    return None


CONTEXTS = ["{}", "1{}2", "({})", "(a|{})", "[{}|2]", "[1|{}", "{{{}|1}}", "λ{};", "λ2|{};", "ƛ{};", "'{};", "µ{};", "⟨1|{}|3⟩", "@f:a|{};", "v{}", "₌{}+", "≬{}12", "(⟨[{}]⟩)", "λ[1|{}];3", "{}X", "(i|{}x)"]
SYNTAX_CHARS = list("|;])}⟩Xxv⁽&~ßƒɖ₌‡₍≬[({λƛ'µ⟨@ #`\\»«")


def py_shape(src):
    """structure of the Python emitted for a program, with what a literal pushes masked out: the arguments of every
    stack.append(...) are replaced by a placeholder and generated names are numbered in order of appearance.
    Two programs that differ only in one literal's payload must have the same shape."""
    import ast
    from vyxal.transpile import transpile

    try:
        code = transpile(src)
    except Exception as e:  # noqa
        return f"transpile raised {type(e).__name__}"
    import warnings

    try:
        with warnings.catch_warnings():
            warnings.simplefilter("ignore")
            tree = ast.parse(code)
    except SyntaxError as e:
        return f"emitted Python does not parse: {e.msg}"
    names = {}

    def norm(nm):
        m = re.match(r"(_lambda_|VAR_LOOP)[0-9a-f]{8,}", nm)
        if not m:
            return nm
        return names.setdefault(nm, f"{m.group(1)}{len(names)}")

    for n in ast.walk(tree):
        if isinstance(n, ast.Call) and ast.unparse(n.func) == "stack.append":
            n.args, n.keywords = [ast.Name(id="PUSHED", ctx=ast.Load())], []
    for n in ast.walk(tree):
        if isinstance(n, ast.Name):
            n.id = norm(n.id)
        elif isinstance(n, ast.FunctionDef):
            n.name = norm(n.name)
        elif isinstance(n, ast.Attribute) and isinstance(n.value, ast.Name):
            n.value.id = norm(n.value.id)
    return ast.dump(tree)


def replay_lexer(source):
    """-> witness dict if real tokenise disagrees with the specification lex on `source`"""
    from contracts import lexspec

    tokenise, *_ = real()
    for dg in (False, True):
        try:
            got = tokenise(source, dg)
        except Exception as e:  # noqa
            return dict(source=source, variables_as_digraphs=dg, raised=f"{type(e).__name__}: {e}")
        want = lexspec.lex(source, dg)
        if got != want:
            return dict(source=source, variables_as_digraphs=dg, tokenise=repr(got), specification=repr(want))
    return None


def search_lexer(seed=0, maxlen=3, extra_random=3000):
    alpha = "\\`»«0.°1‛→←a_#\nk|⁺λ X²"
    for L in range(0, maxlen + 1):
        for t in itertools.product(alpha, repeat=L):
            w = replay_lexer("".join(t))
            if w:
                return w
    rnd = random.Random(seed)
    for _ in range(extra_random):
        s = "".join(rnd.choice(alpha) for _ in range(rnd.randrange(4, 10)))
        w = replay_lexer(s)
        if w:
            return w
    return None


def gen_programs(rnd, n, depth=3):
    """well-formed, fully closed programs over all nine structure kinds and the modifiers"""
    atoms = ["1", "2", "+", "n", "`ab`", "\\c", "‛xy", "»ab»", "«cd«", "⁺q", "→v", "←v", "d", "kA", "X", "x", "`a\n`", "`\n\n`", "«c\n«", "`a `", "` `"]

    def prog(d):
        k = rnd.choice([0, 1, 1, 2, 2, 3])  # empty branches are legal programs too
        return "".join(item(d) for _ in range(k))

    def item(d):
        if d <= 0 or rnd.random() < 0.45:
            return rnd.choice(atoms) + (" " if rnd.random() < 0.3 else "")
        c = rnd.randrange(12)
        if c == 0:
            return "[" + prog(d - 1) + ("|" + prog(d - 1) if rnd.random() < 0.6 else "") + "]"
        if c == 1:
            return "(" + ("i|" if rnd.random() < 0.3 else "") + prog(d - 1) + ")"
        if c == 2:
            return "{" + (prog(d - 1) + "|" if rnd.random() < 0.4 else "") + prog(d - 1) + "}"
        if c == 3:
            return "λ" + ("2|" if rnd.random() < 0.3 else "") + prog(d - 1) + ";"
        if c == 4:
            return rnd.choice("ƛ'µ") + prog(d - 1) + ";"
        if c == 5:
            return "⟨" + "|".join(prog(d - 1) for _ in range(rnd.randrange(1, 4))) + "⟩"
        if c == 6:
            return "@f:a|" + prog(d - 1) + ";"
        if c == 7:
            return "@f;"
        if c == 8:
            return rnd.choice("v&~ßƒɖ⁽") + item(d - 1)
        if c == 9:
            return rnd.choice("₌‡₍") + item(d - 1) + item(d - 1)
        if c == 10:
            return "≬" + item(d - 1) + item(d - 1) + item(d - 1)
        return "`" + rnd.choice(["", "a", "a\\`b", "x y"]) + "`"

    return [prog(depth) for _ in range(n)]


def truncations(src):
    """the programs obtained from the closed program src by dropping trailing closers, one at
    a time: closing brackets / semicolons, then (if it is a closing one) the string delimiter"""
    from contracts import lexspec

    def spec(text):  # what is a closer is decided by the lexer's specification, not by the lexer under test
        return lexspec.lex(text, False)

    out = []
    cur = src
    while cur and cur[-1] in "])}⟩;":
        # only a character the lexer reads as a GENERAL token is a closer (not one inside a literal)
        toks = spec(cur)
        if not toks or toks[-1].name.value != "general" or toks[-1].value != cur[-1]:
            break
        cur = cur[:-1]
        out.append(cur)
    for delim, kind in (("`", "string"), ("«", "compressed_string"), ("»", "compressed_number")):
        if cur.endswith(delim):
            a, b = spec(cur), spec(cur[:-1])
            if a == b and a and a[-1].name.value == kind:  # a closing delimiter: by the specification the same tokens without it
                out.append(cur[:-1])
    return out
