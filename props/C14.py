"""C14 -- finite prefixes of infinite lists are computed lazily and terminate."""
from __future__ import annotations

from .base import Prop, Ground
from . import lazycommon as lc


class C14(Prop):
    id = "C14"
    contract_modules = ["lazylist"]
    level = "proof"
    trusted_base = ["CPython semantics of the subset (DESIGN 2.2)", "z3 5.1 / cvc5 1.0.3 (unsat answers)", "vyxalify is the identity on Vyxal values", "laziness of C iterators (map, filter, enumerate, tee, zip_longest) is not modelled"]
    paper_steps = ["the deductive core is the accessor layer every transformation goes through: has_ind / __getitem__ / __bool__ / __iter__ pull exactly max(0, needed - cached) items (obligations C14-*); the element-level transformations (generators in elements.py) are covered by the bounded stand-in only and are NOT counted as proved"]

    def wants(self, name):
        return "C12-" not in name

    def sweep(self, ns):
        n_eval = 0
        for name, prog, a, b in lc.CATALOGUE:
            for n in ns:
                n_eval += 1
                pulls, err = lc.pulls_for(prog, n, seconds=4)
                if err == "timeout" or pulls > a * n + b:
                    self.last_n = n_eval
                    return dict(transformation=name, program=prog, n=n, pulls=pulls, bound=a * n + b, error=err)
        self.last_n = n_eval
        return None

    def bounded(self, W, tier, seed):
        ns = [0, 1, 2, 3, 7, 20, 40] if tier != "thorough" else list(range(0, 41))
        w = self.sweep(ns)
        return [dict(name="C14/bounded-pull-counts", what="catalogued transformations and compositions applied to an instrumented infinite source; the first n items (or item n) must terminate within a*n+b pulls", bound=f"{len(lc.CATALOGUE)} transformations, n in {ns if len(ns) < 10 else '0..40'}", evaluations=self.last_n, label="bounded", failures=[w] if w else [])]

    def replay(self, W, report, ob):
        return self.sweep([0, 1, 5, 20])

    def stale_search(self, W, key, seed):
        return self.sweep([0, 1, 5, 20])

    def run_replay(self, path):
        import json

        d = json.load(open(path, encoding="utf-8"))
        print(json.dumps(d, ensure_ascii=False, indent=1)[:1500])
        w = d.get("witness") or {}
        if "program" in w:
            pulls, err = lc.pulls_for(w["program"], w["n"])
            print("pulls now:", pulls, err)
            return 1 if (err == "timeout" or pulls > w["bound"]) else 0
        return 0


PROP = C14()
