"""C14 -- finite prefixes of infinite lists are computed lazily and terminate."""
from __future__ import annotations

import ast

from .base import Prop, Ground
from . import lazycommon as lc

# calls a lazy source may flow into without being forced (they keep or wrap the iterator, or only look at its type)
NON_FORCING = {"iterable", "vy_type", "isinstance", "iter", "next", "safe_apply", "map", "filter", "LazyList", "type", "vy_zip", "deep_copy", "lazylist", "enumerate", "zip"}
WRAPPERS = {"iterable", "iter", "map", "filter", "LazyList", "deep_copy", "enumerate", "zip"}  # calls whose result still is (a view of) the source
# (function key, parameters that carry the lazy source, allowed textual exceptions)
LAZY_SOURCES = [
    ("vyxal/elements.py::vy_map", ["lhs", "rhs"], set()),
    ("vyxal/elements.py::deltas", ["lhs"], set()),
    ("vyxal/helpers.py::prefixes", ["lhs"], {"len(lhs)", "lhs[:i + 1]"}),  # both in the branch `isinstance(lhs, str)`
    ("vyxal/helpers.py::scanl", ["vector"], set()),
    ("vyxal/elements.py::vy_zip", ["lhs", "rhs"], set()),
    ("vyxal/elements.py::interleave", ["lhs", "rhs"], {"''.join(gen())"}),  # two strings: finite, joined
    ("vyxal/helpers.py::concat", ["vec1", "vec2"], set()),
    ("vyxal/elements.py::all_less_than_increasing", ["lhs"], set()),
    ("vyxal/elements.py::insert_or_map_nth", ["lhs"], {"lhs[:int(rhs)]", "lhs[int(rhs):]"}),  # both in the branch `vy_type(lhs) is str`
    # the analysis is per function, not per overload: the forcing uses of the overloads that are NOT lazy transformations
    # (length comparison of two finite values, splitting a string, chunk sizes given as a list) are listed textually
    ("vyxal/elements.py::vy_filter", ["lhs", "rhs"], {"''.join((elem for elem in lhs if elem not in rhs))"}),  # overload (str, str)
    ("vyxal/elements.py::overlapping_groups", ["lhs"], {"len(iterable(lhs, ctx=ctx))"}),  # overload (any, any): len(a) == len(b)
    ("vyxal/elements.py::split_keep", ["lhs", "rhs"], {"re.split(f'({re.escape(vy_str(rhs, ctx=ctx))})', lhs)", "vy_str(rhs, ctx=ctx)"}),  # overload (str, any)
    ("vyxal/elements.py::wrap", ["lhs", "rhs"], {"all((isinstance(x, int) for x in rhs))", "index(iterable(lhs, ctx=ctx), [slice_start, slice_start + pos], ctx)", "lhs.partition(rhs)"}),  # chunk sizes as a list; (str, str)
]


def forcing_uses(fnode, sources, allowed):
    """every place where a (transitively) source-carrying name is forced: passed to a call outside NON_FORCING,
    subscripted, or iterated by anything but a `for` statement of a generator.  -> list of texts"""
    tainted = set(sources)

    closures = set()

    def carries(e):  # does the value of e carry the source (type-only calls return no part of it)
        if isinstance(e, ast.Call) and isinstance(e.func, ast.Name) and e.func.id in closures:
            return True  # the lazy result of the function's own generator over the source
        if isinstance(e, ast.Call) and ast.unparse(e.func).split(".")[-1] not in WRAPPERS:
            return False  # the result of any other call is a new value; the call itself is judged below
        if isinstance(e, ast.Name):
            return e.id in tainted
        return any(carries(c) for c in ast.iter_child_nodes(e))

    changed = True
    while changed:  # names assigned from expressions mentioning a source carry it too
        changed = False
        for x in ast.walk(fnode):
            if isinstance(x, ast.Assign) and carries(x.value):
                for t in x.targets:
                    for n in ast.walk(t):
                        if isinstance(n, ast.Name) and n.id not in tainted:
                            tainted.add(n.id)
                            changed = True
    for nd in ast.walk(fnode):  # the function's own generators over the source: forcing their result forces the source
        if isinstance(nd, ast.FunctionDef) and nd is not fnode and any(isinstance(n, ast.Name) and n.id in tainted for n in ast.walk(nd)):
            closures.add(nd.name)
    bad = []

    def mentions(e):
        return any(isinstance(n, ast.Name) and n.id in tainted for n in ast.walk(e))

    for x in ast.walk(fnode):
        if isinstance(x, ast.Call):
            f = ast.unparse(x.func)
            args = list(x.args) + [k.value for k in x.keywords if k.arg != "ctx"]
            direct = [a for a in args if carries(a)]
            if direct and f.split(".")[-1] not in NON_FORCING and ast.unparse(x) not in allowed:
                bad.append(ast.unparse(x))
        elif isinstance(x, ast.Subscript) and isinstance(x.value, ast.Name) and x.value.id in tainted and isinstance(x.ctx, ast.Load):
            if ast.unparse(x) not in allowed and not isinstance(x.slice, ast.Constant):
                bad.append(ast.unparse(x))
        elif isinstance(x, (ast.ListComp, ast.SetComp, ast.DictComp)):
            # an eager comprehension over the source forces it; a generator expression does not (what consumes it is a call, judged above)
            for gen_ in x.generators:
                if isinstance(gen_.iter, ast.Name) and gen_.iter.id in tainted and "comprehension over " + gen_.iter.id not in allowed:
                    bad.append("comprehension over " + gen_.iter.id)
        elif isinstance(x, ast.Starred) and isinstance(x.value, ast.Name) and x.value.id in tainted:
            bad.append("*" + x.value.id)
    return sorted(set(bad))


class C14(Prop):
    id = "C14"
    contract_modules = ["lazylist", "laziness", "laziness2", "laziness3"]
    level = "proof"
    trusted_base = ["CPython semantics of the subset (DESIGN 2.2)", "z3 5.1 / cvc5 1.0.3 (unsat answers)", "vyxalify is the identity on Vyxal values", "laziness of C iterators (map, filter, enumerate, tee, zip_longest) is not modelled"]
    paper_steps = ["the deductive core is the accessor layer every transformation goes through: has_ind / __getitem__ / __bool__ / __iter__ pull exactly max(0, needed - cached) items (obligations C14-*); fourteen generator transformations (map, deltas, prefixes, cumulative reduction, zip, interleave; append / prepend = concat, take-while-less, insert at a position, map every n-th item, map every second item in both of its elements, chunks of length n, windows of length n) carry a yield-point contract: when item j is yielded at most j+1 (resp. j+2) source items have been consumed (at-yield obligations), and the source parameter flows only into non-forcing calls and the generator's own `for` (obligations C14/source-not-forced[*]); all other element-level transformations are covered by the bounded stand-in only and are NOT counted as proved"]

    def wants(self, name):
        return "C12-" not in name

    def ground(self, W, tier, seed):
        g = []
        for key, sources, allowed in LAZY_SOURCES:
            fn = W.find_function(key)
            if fn is None:
                g.append(Ground(f"C14/source-not-forced[{key.split('::')[1]}]", False, "function not found"))
                continue
            bad = forcing_uses(fn.node, sources, allowed)
            g.append(Ground(f"C14/source-not-forced[{fn.name}]", not bad, f"the lazy source reaches a forcing operation: {bad}", witness=dict(function=key, forcing=bad) if bad else None, native=False))
        return g

    def sweep(self, ns):
        n_eval = 0
        for name, prog, a, b in lc.CATALOGUE:
            for n in ns:
                n_eval += 1
                pulls, err = lc.pulls_for(prog, n, seconds=4)
                if err == "timeout" or pulls > a * n + b:
                    self.last_n = n_eval
                    return dict(transformation=name, program=prog, n=n, pulls=pulls, bound=a * n + b, error=err)
        self.last_n = n_eval
        return None

    def wide_sweep(self):
        n_eval = 0
        for prog in lc.WIDE:
            n_eval += 1
            pulls, err = lc.pulls_for(prog, 20, seconds=4)
            if err is not None or pulls > 50:
                return dict(transformation="element " + prog, program=prog, n=20, pulls=pulls, bound=50, error=err), n_eval
        return None, n_eval

    def flag_cases(self):
        """the interpreter's own prefix step: the `…` flag cuts the top of the stack to 100 items before later output flags read it"""
        import contextlib
        import io
        import signal
        from vyxal.main import execute_vyxal

        class Expired(Exception):
            pass

        def on_alarm(*a):
            raise Expired()

        n = 0
        for prog, flags in (("Þ∞ ƛ2*;", "e…S"), ("Þ∞ ƛ2*;", "e…j"), ("Þ∞ ¦", "e…l"), ("Þ∞ 2 ẇ", "e…l"), ("Þ∞", "e…L"), ("Þ∞ ›", "e…s")):
            n += 1
            buf = io.StringIO()
            old = signal.signal(signal.SIGALRM, on_alarm)
            signal.alarm(6)
            try:
                with contextlib.redirect_stdout(buf):
                    execute_vyxal(prog, flags, [])
                err = None
            except Expired:
                err = "did not terminate within 6 s"
            except BaseException as e:  # noqa
                err = None  # an error message is an answer too; only non-termination counts here
            finally:
                signal.alarm(0)
                signal.signal(signal.SIGALRM, old)
            if err:
                return dict(transformation="flag …", program=prog, flags=flags, n=100, pulls=-1, bound=0, error=err), n
        return None, n

    def bounded(self, W, tier, seed):
        ns = [0, 1, 2, 3, 7, 20, 40] if tier != "thorough" else list(range(0, 41))
        w = self.sweep(ns)
        w2, n2 = self.wide_sweep()
        wide = dict(name="C14/bounded-element-sweep", what="every element that delivers a prefix of its result on an infinite list on the pinned tree (found by a sweep over the whole table) applied to an instrumented infinite source: item 0..19 of the result within 50 pulls and 4 s", bound=f"{len(lc.WIDE)} element applications, n = 20", evaluations=n2, label="bounded", failures=[w2] if w2 else [])
        w3, n3 = self.flag_cases()
        flagc = dict(name="C14/bounded-flag-prefix", what="infinite list on top of the stack, run through execute_vyxal with the flag … followed by an output flag that reads the whole value (S, j, l, L, s): must terminate", bound="6 program / flag combinations, 6 s each", evaluations=n3, label="bounded", failures=[w3] if w3 else [])
        return [wide, flagc, dict(name="C14/bounded-pull-counts", what="catalogued transformations and compositions applied to an instrumented infinite source; the first n items (or item n) must terminate within a*n+b pulls", bound=f"{len(lc.CATALOGUE)} transformations, n in {ns if len(ns) < 10 else '0..40'}", evaluations=self.last_n, label="bounded", failures=[w] if w else [])]

    def replay(self, W, report, ob):
        return self.sweep([0, 1, 5, 20])

    def stale_search(self, W, key, seed):
        return self.sweep([0, 1, 5, 20])

    def run_replay(self, path):
        import json

        d = json.load(open(path, encoding="utf-8"))
        print(json.dumps(d, ensure_ascii=False, indent=1)[:1500])
        w = d.get("witness") or {}
        if "program" in w:
            pulls, err = lc.pulls_for(w["program"], w["n"])
            print("pulls now:", pulls, err)
            return 1 if (err == "timeout" or pulls > w["bound"]) else 0
        return 0


PROP = C14()
