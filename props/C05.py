"""C05 -- numeric literals denote exactly their decimal value."""
from __future__ import annotations

import random
from fractions import Fraction

from .base import Prop, Ground
from . import runcommon as rc


class C05(Prop):
    id = "C05"
    contract_modules = ["lexer", "transpiler"]
    extra_keys = ["vyxal/lexer.py::tokenise", "vyxal/transpile.py::transpile_token", "number_token_is_digits"]
    trusted_base = ["CPython / sympy: sympy.Rational(\"<digits>.<digits>\") is exactly digits/10^k and sympy.nsimplify(\"<digits>\") is exactly that integer (conformance-sampled, not proved)", "z3 5.1 / cvc5 1.0.3 (unsat answers)", "textwrap.indent only adds leading spaces"]
    paper_steps = ["tokenise == lex (proved): a literal is scanned as the maximal prefix allowed by numok, a leading 0 stands alone, a second point starts a new number (lemmas); transpile_token (proved): a plain decimal literal is lowered to sympy.Rational(\"<lit>\"), an integer literal to sympy.nsimplify(\"<lit>\"); the denotation of those two library calls is the assumed, sampled part"]

    def wants(self, name):
        return not name.startswith("transpile_token/post#") or any(k in name for k in ("decimal-literal-exact", "integer-literal"))

    def literal_search(self, tier, seed):
        import sympy

        rnd = random.Random(seed)
        lits = [str(i) for i in range(0, 300 if tier != "thorough" else 100001)]
        lits += [f"{a}.{b}" for a in ("", "0", "1", "12", "999") for b in ("", "0", "5", "25", "333", "0001", "414213562373", "141592653589793", "718281828459045", "30000000000000004")]
        lits += ["1.41421356237", "0.333333333333333", "2.718281828459045", "3.14159", "1.6180339887", "10.0", "250.", "1234567890.000000", "100.00"]
        for _ in range(200 if tier != "thorough" else 5000):
            a = "".join(rnd.choice("0123456789") for _ in range(rnd.randrange(1, 26))).lstrip("0") or "0"
            b = "".join(rnd.choice("0123456789") for _ in range(rnd.randrange(0, 19)))
            lits.append(a if rnd.random() < 0.3 else f"{a}.{b}")
        lits += [str(10**k + d) for k in range(7, 61, 4) for d in (-1, 0, 1)]
        n = 0
        fails = []
        seen_int_defect = False
        for lit in lits:
            if lit in (".", ""):
                continue
            n += 1
            r = rc.run_program(lit, ())
            want = Fraction(lit if lit[0] != "." else "0" + lit)
            st = r["stack"]
            ok = r["error"] is None and len(st) == 1
            if ok:
                v = st[0]
                try:
                    got = Fraction(int(v.p), int(v.q)) if hasattr(v, "p") else Fraction(v)
                    ok = got == want and not isinstance(v, float)
                except Exception:  # noqa
                    ok = False
            if not ok:
                # the recorded finding is identified by its call site: the emitted text for an integer literal is
                # sympy.nsimplify("<digits>"), and that very call returns the inexact value that was pushed
                int_defect = lit.isdigit() and r["error"] is None and len(st) == 1 and repr(st[0]) == repr(sympy.nsimplify(lit))
                if int_defect:
                    if not seen_int_defect:  # recorded finding (one witness is enough); keep looking for anything else
                        fails.append(dict(literal=lit, stack=repr(st)[:120], expected=str(want), defect_class="integer-literal-through-nsimplify"))
                    seen_int_defect = True
                    continue
                fails.append(dict(literal=lit, stack=repr(st), expected=str(want), error=r["error"]))
                return fails, n
        # splitting of adjacent literals, as documented
        from vyxal.lexer import tokenise

        for src, want in [("01", ["0", "1"]), ("0.5", ["0.5"]), ("1.5.5", ["1.5", ".5"]), (".5.5", [".5", ".5"]), ("..", [".", "."]), ("10.25.75", ["10.25", ".75"]), ("007", ["0", "0", "7"]), ("5²", ["5", "²"]), ("12₀", ["12", "₀"])]:
            n += 1
            got = [t.value for t in tokenise(src)]
            if got != want:
                fails.append(dict(source=src, tokens=got, expected=want))
                return fails, n
        return fails, n

    def bounded(self, W, tier, seed):
        fails, n = self.literal_search(tier, seed)
        return [dict(name="C05/bounded-literals", what="integer and decimal literals run alone on the real interpreter; the value on the stack compared exactly with fractions.Fraction(literal); documented splitting of adjacent literals", bound="integers 0..299 (quick) / 0..10^5 (thorough), sampled to 10^60; decimals to 25+18 digits", evaluations=n, label="bounded (also the conformance sample for the assumed sympy contracts)", failures=fails)]

    def replay(self, W, report, ob):
        if report["key"].endswith("::tokenise"):
            from . import parsecommon as pc

            w = pc.search_lexer()
            if w:
                return w
        f = [x for x in self.literal_search("quick", 0)[0] if "defect_class" not in x]
        return f[0] if f else None

    def stale_search(self, W, key, seed):
        f = [x for x in self.literal_search("quick", seed)[0] if "defect_class" not in x]
        return f[0] if f else None

    def run_replay(self, path):
        import json

        d = json.load(open(path, encoding="utf-8"))
        print(json.dumps(d, ensure_ascii=False, indent=1)[:1500])
        w = d.get("witness") or {}
        if "literal" in w:
            r = rc.run_program(w["literal"], ())
            print("stack now:", r["stack"], "expected", w.get("expected"))
            return 0 if str(r["stack"]) == f"[{w.get('expected')}]" else 1
        return 0


PROP = C05()
