"""C05 -- numeric literals denote exactly their decimal value."""
from __future__ import annotations

import random
from fractions import Fraction

from .base import Prop, Ground
from . import runcommon as rc


class C05(Prop):
    id = "C05"
    contract_modules = ["lexer", "transpiler", "arith"]
    extra_keys = ["vyxal/lexer.py::tokenise", "vyxal/transpile.py::transpile_token", "number_token_is_digits"]
    trusted_base = ["CPython / sympy: sympy.Rational(\"<digits>.<digits>\") is exactly digits/10^k and sympy.nsimplify(\"<digits>\") is exactly that integer (conformance-sampled, not proved)", "z3 5.1 / cvc5 1.0.3 (unsat answers)", "textwrap.indent only adds leading spaces"]
    paper_steps = ["tokenise == lex (proved): a literal is scanned as the maximal prefix allowed by numok, a leading 0 stands alone, a second point starts a new number (lemmas); transpile_token (proved): a plain decimal literal is lowered to sympy.Rational(\"<lit>\"), an integer literal to sympy.nsimplify(\"<lit>\"); the denotation of those two library calls is the assumed, sampled part"]

    def wants(self, name):
        return not name.startswith("transpile_token/post#") or any(k in name for k in ("decimal-literal-exact", "integer-literal"))

    def literal_search(self, tier, seed):
        import sympy

        rnd = random.Random(seed)
        lits = [str(i) for i in range(0, 300 if tier != "thorough" else 100001)]
        lits += [f"{a}.{b}" for a in ("", "0", "1", "12", "999") for b in ("", "0", "5", "25", "333", "0001", "414213562373", "141592653589793", "718281828459045", "30000000000000004")]
        lits += ["1.41421356237", "0.333333333333333", "2.718281828459045", "3.14159", "1.6180339887", "10.0", "250.", "1234567890.000000", "100.00"]
        for _ in range(200 if tier != "thorough" else 5000):
            a = "".join(rnd.choice("0123456789") for _ in range(rnd.randrange(1, 26))).lstrip("0") or "0"
            b = "".join(rnd.choice("0123456789") for _ in range(rnd.randrange(0, 19)))
            lits.append(a if rnd.random() < 0.3 else f"{a}.{b}")
        lits += [str(10**k + d) for k in range(7, 61, 4) for d in (-1, 0, 1)]
        n = 0
        fails = []
        seen_int_defect = False
        for lit in lits:
            if lit in (".", ""):
                continue
            n += 1
            r = rc.run_program(lit, ())
            want = Fraction(lit if lit[0] != "." else "0" + lit)
            st = r["stack"]
            ok = r["error"] is None and len(st) == 1
            if ok:
                v = st[0]
                try:
                    got = Fraction(int(v.p), int(v.q)) if hasattr(v, "p") else Fraction(v)
                    ok = got == want and not isinstance(v, float)
                except Exception:  # noqa
                    ok = False
            if not ok:
                # the recorded finding is identified by its call site: the emitted text for an integer literal is
                # sympy.nsimplify("<digits>"), and that very call returns the inexact value that was pushed
                int_defect = lit.isdigit() and r["error"] is None and len(st) == 1 and repr(st[0]) == repr(sympy.nsimplify(lit))
                if int_defect:
                    if not seen_int_defect:  # recorded finding (one witness is enough); keep looking for anything else
                        fails.append(dict(literal=lit, stack=repr(st)[:120], expected=str(want), defect_class="integer-literal-through-nsimplify"))
                    seen_int_defect = True
                    continue
                fails.append(dict(literal=lit, stack=repr(st), expected=str(want), error=r["error"]))
                return fails, n
        # the same literals inside structures and after other literal kinds with the same text (the value of a
        # numeric literal does not depend on where it stands or on what was lowered before it in this process)
        ctx_lits = ["0", "7", "12", "41", "1093", "0.5", "2.75", "0.30000000000000004", "0.123456789012345678", "1234567890123456789012345.5", "9007199254740993.25", "100.00"]
        contexts = [("list item", "⟨{}⟩", lambda st: st[0][0] if len(st) == 1 and hasattr(st[0], "__getitem__") else None),
                    ("second list item", "⟨1|{}⟩", lambda st: st[0][1] if len(st) == 1 else None),
                    ("lambda body", "λ{};†", lambda st: st[-1] if st else None),
                    ("if branch", "1[{}]", lambda st: st[-1] if st else None),
                    ("for body", "1({})", lambda st: st[-1] if st else None),
                    ("after a string with the same text", "`{}` {}", lambda st: st[-1] if len(st) == 2 else None),
                    ("after a compressed number with the same text", "»{}» {}", lambda st: st[-1] if len(st) == 2 else None),
                    ("after a code-page number", "⁺{} {}", lambda st: st[-1] if len(st) == 2 else None),
                    ("in a lambda after a string", "λ`{}` {};†", lambda st: st[-1] if st else None)]
        for lit in ctx_lits:
            want = Fraction(lit)
            alone = rc.run_program(lit, ())
            if alone["error"] is not None or len(alone["stack"]) != 1:
                continue
            ref = alone["stack"][0]
            for cname, tmpl, pick in contexts:
                if tmpl.startswith("⁺") and len(lit) != 1:
                    continue
                n += 1
                r = rc.run_program(tmpl.replace("{}", lit), ())
                got = None
                try:
                    got = pick(list(r["stack"])) if r["error"] is None else None
                    same = got is not None and not isinstance(got, (str, float)) and rc.simp(got) == rc.simp(ref)
                except Exception:  # noqa
                    same = False
                if not same:
                    fails.append(dict(literal=lit, context=cname, program=tmpl.replace("{}", lit), got=repr(got)[:120], alone=repr(ref)[:120], expected=str(want), error=r["error"]))
                    return fails, n
        # both orders of lowering: a string lowered before the number with the same text, and after it
        for lit in ("13", "3.25", "77", "6.125"):
            for prog, idx_num, idx_str in ((f"`{lit}` {lit}", 1, 0), (f"{lit} `{lit}`", 0, 1), (f"λ`{lit}` {lit};† `{lit}`", 0, 1)):
                n += 1
                r = rc.run_program(prog, ())
                st = list(r["stack"] or [])
                ok = r["error"] is None and len(st) == 2 and isinstance(st[idx_str], str) and st[idx_str] == lit and not isinstance(st[idx_num], (str, float))
                if ok:
                    v = st[idx_num]
                    try:
                        ok = (Fraction(int(v.p), int(v.q)) if hasattr(v, "p") else Fraction(v)) == Fraction(lit)
                    except Exception:  # noqa
                        ok = False
                if not ok and not (lit.isdigit() and r["error"] is None and len(st) == 2 and repr(st[idx_num]) == repr(sympy.nsimplify(lit)) and st[idx_str] == lit):
                    fails.append(dict(program=prog, stack=repr(st)[:200], expected=f"the string {lit!r} and the number {lit}", error=r["error"]))
                    return fails, n
        # splitting of adjacent literals, as documented
        from vyxal.lexer import tokenise

        for src, want in [("01", ["0", "1"]), ("0.5", ["0.5"]), ("1.5.5", ["1.5", ".5"]), (".5.5", [".5", ".5"]), ("..", [".", "."]), ("10.25.75", ["10.25", ".75"]), ("007", ["0", "0", "7"]), ("5²", ["5", "²"]), ("12₀", ["12", "₀"])]:
            n += 1
            got = [t.value for t in tokenise(src)]
            if got != want:
                fails.append(dict(source=src, tokens=got, expected=want))
                return fails, n
        return fails, n

    def bounded(self, W, tier, seed):
        fails, n = self.literal_search(tier, seed)
        return [dict(name="C05/bounded-literals", what="integer and decimal literals run alone on the real interpreter; the value on the stack compared exactly with fractions.Fraction(literal); documented splitting of adjacent literals; 12 literals in 9 contexts (list item, lambda, branches, after a string / compressed number / code-page number with the same text) must push what they push alone", bound="integers 0..299 (quick) / 0..10^5 (thorough), sampled to 10^60; decimals to 25+18 digits", evaluations=n, label="bounded (also the conformance sample for the assumed sympy contracts)", failures=fails)]

    def replay(self, W, report, ob):
        if report["key"].endswith("::tokenise"):
            from . import parsecommon as pc

            w = pc.search_lexer()
            if w:
                return w
        f = [x for x in self.literal_search("quick", 0)[0] if "defect_class" not in x]
        return f[0] if f else None

    def stale_search(self, W, key, seed):
        f = [x for x in self.literal_search("quick", seed)[0] if "defect_class" not in x]
        return f[0] if f else None

    def run_replay(self, path):
        import json

        d = json.load(open(path, encoding="utf-8"))
        print(json.dumps(d, ensure_ascii=False, indent=1)[:1500])
        w = d.get("witness") or {}
        if "literal" in w:
            r = rc.run_program(w["literal"], ())
            print("stack now:", r["stack"], "expected", w.get("expected"))
            return 0 if str(r["stack"]) == f"[{w.get('expected')}]" else 1
        return 0


PROP = C05()
