"""C10 -- values are immutable: no element changes a value another reference can see."""
from __future__ import annotations

import ast
import random

from .base import Prop, Ground
from . import runcommon as rc

MUTATORS = {"append", "extend", "insert", "pop", "remove", "sort", "reverse", "clear", "add", "update", "popleft", "appendleft", "discard", "setdefault"}
FRESH_CALLS = {"list", "sorted", "dict", "set", "tuple", "str", "int", "LazyList", "vyxalify", "range", "map", "filter", "zip", "enumerate", "reversed", "vy_str", "vy_repr", "simplify", "wrap", "pad_to_square"}
SAME_OBJECT_CALLS = {"iterable", "wrapify", "scalarify", "deep_copy_not"}  # return their argument itself for lists


def owner_analysis(fn):
    """owner tags, syntactically: names that may denote (or alias into) an argument.  A mutating
    operation on such a name is a violation of the frame clause `modifies nothing reachable from the arguments`."""
    params = {a.arg for a in fn.args.args + fn.args.kwonlyargs if a.arg not in ("ctx", "self")}
    tainted = set(params)
    changed = True
    assigns = [n for n in ast.walk(fn) if isinstance(n, (ast.Assign, ast.AugAssign, ast.AnnAssign, ast.For, ast.NamedExpr))]

    def may_alias(e):
        if isinstance(e, ast.Name):
            return e.id in tainted
        if isinstance(e, ast.IfExp):
            return may_alias(e.body) or may_alias(e.orelse)
        if isinstance(e, ast.BoolOp):
            return any(may_alias(v) for v in e.values)
        if isinstance(e, ast.Call):
            f = e.func.id if isinstance(e.func, ast.Name) else getattr(e.func, "attr", None)
            if f in SAME_OBJECT_CALLS:
                return any(may_alias(a) for a in e.args)
            return False
        if isinstance(e, ast.Subscript) and not isinstance(e.slice, ast.Slice):
            return may_alias(e.value)  # an item of an argument is reachable from it
        if isinstance(e, ast.Attribute):
            return False
        if isinstance(e, (ast.Tuple, ast.List)):
            return False  # a fresh container (its items are not mutated through it by list ops on the container)
        return False

    while changed:
        changed = False
        for n in assigns:
            if isinstance(n, ast.For):
                targets, value = [n.target], n.iter
                # iterating an argument yields its items (reachable)
                src = may_alias(value) or (isinstance(value, ast.Call) and getattr(value.func, "id", None) in ("enumerate", "zip", "reversed") and any(may_alias(a) for a in value.args))
            elif isinstance(n, ast.NamedExpr):
                targets, src = [n.target], may_alias(n.value)
            elif isinstance(n, ast.AugAssign):
                continue
            else:
                targets = n.targets if isinstance(n, ast.Assign) else [n.target]
                src = n.value is not None and may_alias(n.value)
            if not src:
                continue
            for t in targets:
                for x in ast.walk(t):
                    if isinstance(x, ast.Name) and x.id not in tainted:
                        tainted.add(x.id)
                        changed = True
    hits = []
    for n in ast.walk(fn):
        if isinstance(n, ast.Call) and isinstance(n.func, ast.Attribute) and n.func.attr in MUTATORS and isinstance(n.func.value, ast.Name) and n.func.value.id in tainted:
            hits.append((n.lineno, f"{n.func.value.id}.{n.func.attr}(...)"))
        if isinstance(n, (ast.Assign, ast.AugAssign)):
            for t in (n.targets if isinstance(n, ast.Assign) else [n.target]):
                if isinstance(t, (ast.Subscript, ast.Attribute)):
                    root = t.value
                    while isinstance(root, (ast.Subscript, ast.Attribute)):
                        root = root.value
                    if isinstance(root, ast.Name) and root.id in tainted:
                        hits.append((n.lineno, ast.unparse(t) + " = ..."))
                if isinstance(n, ast.AugAssign) and isinstance(t, ast.Name) and t.id in params and isinstance(n.op, ast.Add) and isinstance(n.value, (ast.List, ast.Call, ast.Name)):
                    pass  # x += y rebinds for str/int; for lists it extends in place: flagged only when x is known to be a list below
        if isinstance(n, ast.Call) and ast.unparse(n.func) in ("random.shuffle",) and n.args and isinstance(n.args[0], ast.Name) and n.args[0].id in tainted:
            hits.append((n.lineno, ast.unparse(n)))
    return hits


class C10(Prop):
    id = "C10"
    level = "other"
    contract_modules = []
    trusted_base = ["aliasing is tracked syntactically per function (owner tags: a name that may denote an argument or an item of one); the analysis does not follow values through containers other than the argument itself", "C functions of the standard library do not mutate their arguments except the listed mutators"]
    paper_steps = [
        "frame clause `modifies nothing reachable from the arguments` for every function of elements.py and helpers.py: every mutating operation (item / attribute assignment, list mutators, random.shuffle) must act on a name that cannot alias an argument (ground, syntactic, complete over the two files)",
        "copy-on-duplicate: the templates of : D Ḃ ¾ push deep_copy(...) / list(deep_copy(...)) (ground on the live table); deep_copy itself and the laziness of its tee are exercised by the bounded program-level run only",
    ]

    def keys(self, W):
        return []

    def ground(self, W, tier, seed):
        import vyxal.elements as el

        g = []
        n_fn = 0
        for rel in ("vyxal/elements.py", "vyxal/helpers.py"):
            mod, _ = W.module_ast(rel)
            for fn in [n for n in mod.body if isinstance(n, ast.FunctionDef)]:
                n_fn += 1
                if fn.name in ("pop", "wrapify", "function_call"):
                    continue  # the stack protocol: these receive the operand stack (not a Vyxal value) and pop from it by design
                hits = owner_analysis(fn)
                g.append(Ground(f"C10/frame[{rel}::{fn.name}]", not hits, "; ".join(f"line {l}: {t}" for l, t in hits), witness=dict(function=fn.name, operations=[t for _, t in hits]) if hits else None))
        g.append(Ground("C10/functions-scanned", n_fn > 300, f"{n_fn} functions"))
        for k, want in ((":", "stack.append(deep_copy(top))"), ("D", "stack.append(deep_copy(top))"), ("Ḃ", "stack.append(deep_copy(top))"), ("¾", "list(deep_copy(ctx.global_array))")):
            g.append(Ground(f"C10/copy-on-duplicate[{k}]", want in el.elements[k][0], f"template: {el.elements[k][0][:120]}", witness=dict(element=k)))
        # modifier templates must not write attributes of the function value they were given
        for k, tpl in el.modifiers.items():
            stores = [ast.unparse(t) for st in ast.walk(ast.parse(tpl)) if isinstance(st, ast.Assign) for t in st.targets if isinstance(t, ast.Attribute) and isinstance(t.value, ast.Name) and t.value.id.startswith("function_")]
            g.append(Ground(f"C10/modifier-leaves-function-value-alone[{k}]", not stores, f"{stores}", witness=dict(modifier=k, stores=stores) if stores else None))
        return g

    # ---- bounded: <value> <copy-op> <elements> and compare the untouched copy
    def copy_search(self, tier, seed):
        import vyxal.elements as el

        rnd = random.Random(seed)
        values = ["⟨1|2|3⟩", "⟨⟨1|2⟩|⟨3⟩⟩", "3ɾ", "`abc`", "⟨⟩", "5", "3ɾƛ2*;"]
        keys = [k for k, (t, a) in el.elements.items() if a in (1, 2, 3) and k not in ("Q", "Ė", "†", "¨U", "E", "□", "ß", ",", "…", "₴", "¨,", "¨…", "x", "Ḟ")]
        n = 0
        trials = 250 if tier != "thorough" else 6000
        fixed = [("⟨1|2|3⟩", [": 0 9Ȧ"], None), ("3ɾ", [": 0 9Ȧ"], None), ("1⅛ ¾ 2⅛", [], [[1]]), ("1⅛ 2⅛ ¾ ¼ _", [], [[1, 2]]), ("3ɾ →x ←x 1N i _ ←x", [], [[1, 2, 3]]), ("4ɾ £ ¥ ǔ _ ¥", [], [[1, 2, 3, 4]])]
        for prog, _, want in fixed[2:]:
            n += 1
            r = rc.run_program(prog, (), seconds=3)
            if r["error"] is None and rc.simp(r["stack"]) != want:
                return dict(program=prog, stack=repr(rc.simp(r["stack"])), expected=repr(want)), n
        for _ in range(trials):
            v = rnd.choice(values)
            ops = [rnd.choice(keys) for _ in range(rnd.randrange(1, 4))]
            args = " ".join(rnd.choice(["1", "2", "0", "`a`", "⟨4|5⟩"]) for _ in range(2))
            base = rc.run_program(v, (), seconds=3)
            if base["error"] is not None:
                continue
            want = rc.simp(base["stack"][-1])
            prog = f"{v} : {args} " + " ".join(ops) + " W _ "   # W wraps everything above; drop it; the first copy remains below
            prog = f"{v} : →keep {args} " + " ".join(ops) + " ←keep"
            n += 1
            r = rc.run_program(prog, (1, 2), seconds=3)
            if r["error"] is not None or not r["stack"]:
                continue
            got = rc.simp(r["stack"][-1])
            if got != want:
                return dict(program=prog, kept_copy_now=repr(got)[:200], value_before=repr(want)[:200]), n
        return None, n

    def bounded(self, W, tier, seed):
        w, n = self.copy_search(tier, seed)
        return [dict(name="C10/bounded-copies", what="<value> : →keep <arguments> <1-3 random elements> ←keep on the real interpreter: the kept duplicate must still denote the value; plus fixed histories over the global array, variables and the register", bound="250 (quick) / 6000 (thorough) random programs over 7 values", evaluations=n, label="bounded", failures=[w] if w else [])]

    def replay(self, W, report, ob):
        return self.copy_search("quick", 0)[0]

    def run_replay(self, path):
        import json

        d = json.load(open(path, encoding="utf-8"))
        print(json.dumps(d, ensure_ascii=False, indent=1)[:1500])
        return 0


PROP = C10()
