"""C10 -- values are immutable: no element changes a value another reference can see."""
from __future__ import annotations

import ast
import random

from .base import Prop, Ground
from . import runcommon as rc

MUTATORS = {"append", "extend", "insert", "pop", "remove", "sort", "reverse", "clear", "add", "update", "popleft", "appendleft", "discard", "setdefault"}
FRESH_CALLS = {"list", "sorted", "dict", "set", "tuple", "str", "int", "LazyList", "vyxalify", "range", "map", "filter", "zip", "enumerate", "reversed", "vy_str", "vy_repr", "simplify", "wrap", "pad_to_square"}
SAME_OBJECT_CALLS = {"iterable", "wrapify", "scalarify", "deep_copy_not"}  # return their argument itself for lists


def owner_analysis(fn):
    """owner tags: names that may denote (or alias into) an argument, tracked in statement order (a name rebound to a
    fresh value stops being an owner; branches are joined by union, loop bodies are run to a fixpoint, closures see
    every name that is an owner anywhere in the function).  A mutating operation on an owner is a violation of the
    frame clause `modifies nothing reachable from the arguments`."""
    params = {a.arg for a in fn.args.args + fn.args.kwonlyargs if a.arg not in ("ctx", "self")}
    hits = set()
    ever = set(params)
    nested = []

    def may_alias(e, tainted):
        if isinstance(e, ast.Name):
            return e.id in tainted
        if isinstance(e, ast.IfExp):
            return may_alias(e.body, tainted) or may_alias(e.orelse, tainted)
        if isinstance(e, ast.BoolOp):
            return any(may_alias(v, tainted) for v in e.values)
        if isinstance(e, ast.NamedExpr):
            return may_alias(e.value, tainted)
        if isinstance(e, ast.Call):
            f = e.func.id if isinstance(e.func, ast.Name) else getattr(e.func, "attr", None)
            if f in SAME_OBJECT_CALLS:
                return any(may_alias(a, tainted) for a in e.args)
            return False
        if isinstance(e, ast.Subscript) and not isinstance(e.slice, ast.Slice):
            return may_alias(e.value, tainted)  # an item of an argument is reachable from it
        return False  # attributes, fresh containers, calls of anything else

    def root_name(t):
        while isinstance(t, (ast.Subscript, ast.Attribute)):
            t = t.value
        return t.id if isinstance(t, ast.Name) else None

    def scan_expr(e, tainted, lineno):
        """mutating calls inside one expression (lambdas and comprehensions included)"""
        if e is None:
            return
        local = set(tainted)
        for n in ast.walk(e):
            if isinstance(n, ast.comprehension):
                src = may_alias(n.iter, local) or (isinstance(n.iter, ast.Call) and getattr(n.iter.func, "id", None) in ("enumerate", "zip", "reversed") and any(may_alias(a, local) for a in n.iter.args))
                if src:
                    local |= {x.id for x in ast.walk(n.target) if isinstance(x, ast.Name)}
        for n in ast.walk(e):
            if isinstance(n, ast.Call) and isinstance(n.func, ast.Attribute) and n.func.attr in MUTATORS and isinstance(n.func.value, ast.Name) and n.func.value.id in local:
                hits.add((n.lineno, f"{n.func.value.id}.{n.func.attr}(...)"))
            if isinstance(n, ast.Call) and ast.unparse(n.func) in ("random.shuffle",) and n.args and isinstance(n.args[0], ast.Name) and n.args[0].id in local:
                hits.add((n.lineno, ast.unparse(n)))
            if isinstance(n, ast.NamedExpr) and isinstance(n.target, ast.Name):
                (tainted.add if may_alias(n.value, local) else tainted.discard)(n.target.id)

    def bind(targets, src, tainted):
        for t in targets:
            if isinstance(t, ast.Name):
                (tainted.add if src else tainted.discard)(t.id)
            elif isinstance(t, (ast.Tuple, ast.List)):
                bind(t.elts, src, tainted)
            elif isinstance(t, ast.Starred):
                bind([t.value], src, tainted)

    def run(stmts, tainted):
        for st in stmts:
            ever.update(tainted)
            if isinstance(st, (ast.FunctionDef, ast.AsyncFunctionDef)):
                nested.append(st)
                continue
            if isinstance(st, (ast.Assign, ast.AnnAssign)):
                scan_expr(st.value, tainted, st.lineno)
                targets = st.targets if isinstance(st, ast.Assign) else [st.target]
                for t in targets:
                    if isinstance(t, (ast.Subscript, ast.Attribute)) and root_name(t) in tainted:
                        hits.add((st.lineno, ast.unparse(t) + " = ..."))
                if st.value is not None:
                    bind(targets, may_alias(st.value, tainted), tainted)
            elif isinstance(st, ast.AugAssign):
                scan_expr(st.value, tainted, st.lineno)
                if isinstance(st.target, (ast.Subscript, ast.Attribute)) and root_name(st.target) in tainted:
                    hits.add((st.lineno, ast.unparse(st.target) + " = ..."))
            elif isinstance(st, ast.For):
                scan_expr(st.iter, tainted, st.lineno)
                src = may_alias(st.iter, tainted) or (isinstance(st.iter, ast.Call) and getattr(st.iter.func, "id", None) in ("enumerate", "zip", "reversed") and any(may_alias(a, tainted) for a in st.iter.args))
                for _ in range(3):
                    before = set(tainted)
                    if src:
                        tainted |= {x.id for x in ast.walk(st.target) if isinstance(x, ast.Name)}
                    else:
                        bind([st.target], False, tainted)
                    run(st.body, tainted)
                    tainted |= before
                    if tainted == before:
                        break
                run(st.orelse, tainted)
            elif isinstance(st, ast.While):
                for _ in range(3):
                    before = set(tainted)
                    scan_expr(st.test, tainted, st.lineno)
                    run(st.body, tainted)
                    tainted |= before
                    if tainted == before:
                        break
                run(st.orelse, tainted)
            elif isinstance(st, ast.If):
                scan_expr(st.test, tainted, st.lineno)
                a, b = set(tainted), set(tainted)
                run(st.body, a)
                run(st.orelse, b)
                tainted.clear()
                tainted |= a | b
            elif isinstance(st, ast.Try):
                before = set(tainted)
                run(st.body, tainted)
                outs = set(tainted) | before
                for h in st.handlers:
                    hs = set(outs)
                    run(h.body, hs)
                    tainted |= hs
                run(st.orelse, tainted)
                run(st.finalbody, tainted)
            elif isinstance(st, ast.With):
                for it in st.items:
                    scan_expr(it.context_expr, tainted, st.lineno)
                run(st.body, tainted)
            else:
                for child in ast.iter_child_nodes(st):
                    if isinstance(child, ast.expr):
                        scan_expr(child, tainted, st.lineno)
        ever.update(tainted)

    run(fn.body, set(params))
    done = 0
    while done < len(nested):  # closures run at an unknown time: every name that is an owner anywhere counts
        nd = nested[done]
        done += 1
        run(nd.body, set(ever))
    return sorted(hits)


class C10(Prop):
    id = "C10"
    level = "other"
    contract_modules = []
    trusted_base = ["aliasing is tracked syntactically per function (owner tags: a name that may denote an argument or an item of one); the analysis does not follow values through containers other than the argument itself", "C functions of the standard library do not mutate their arguments except the listed mutators"]
    paper_steps = [
        "frame clause `modifies nothing reachable from the arguments` for every function of elements.py and helpers.py: every mutating operation (item / attribute assignment, list mutators, random.shuffle) must act on a name that cannot alias an argument (ground, syntactic, complete over the two files)",
        "copy-on-duplicate: the templates of : D Ḃ ¾ push deep_copy(...) / list(deep_copy(...)) (ground on the live table); deep_copy itself and the laziness of its tee are exercised by the bounded program-level run only",
    ]

    def keys(self, W):
        return []

    def ground(self, W, tier, seed):
        import vyxal.elements as el

        g = []
        n_fn = 0
        for rel in ("vyxal/elements.py", "vyxal/helpers.py"):
            mod, _ = W.module_ast(rel)
            for fn in [n for n in mod.body if isinstance(n, ast.FunctionDef)]:
                n_fn += 1
                if fn.name in ("pop", "wrapify", "function_call"):
                    continue  # the stack protocol: these receive the operand stack (not a Vyxal value) and pop from it by design
                hits = owner_analysis(fn)
                g.append(Ground(f"C10/frame[{rel}::{fn.name}]", not hits, "; ".join(f"line {l}: {t}" for l, t in hits), witness=dict(function=fn.name, operations=[t for _, t in hits]) if hits else None))
        g.append(Ground("C10/functions-scanned", n_fn > 300, f"{n_fn} functions"))
        for k, want in ((":", "stack.append(deep_copy(top))"), ("D", "stack.append(deep_copy(top))"), ("Ḃ", "stack.append(deep_copy(top))"), ("¾", "list(deep_copy(ctx.global_array))")):
            g.append(Ground(f"C10/copy-on-duplicate[{k}]", want in el.elements[k][0], f"template: {el.elements[k][0][:120]}", witness=dict(element=k)))
        # modifier templates must not write attributes of the function value they were given
        for k, tpl in el.modifiers.items():
            stores = [ast.unparse(t) for st in ast.walk(ast.parse(tpl)) if isinstance(st, ast.Assign) for t in st.targets if isinstance(t, ast.Attribute) and isinstance(t.value, ast.Name) and t.value.id.startswith("function_")]
            g.append(Ground(f"C10/modifier-leaves-function-value-alone[{k}]", not stores, f"{stores}", witness=dict(modifier=k, stores=stores) if stores else None))
        return g

    # ---- bounded: <value> <copy-op> <elements> and compare the untouched copy
    def copy_search(self, tier, seed):
        import vyxal.elements as el

        rnd = random.Random(seed)
        values = ["⟨1|2|3⟩", "⟨⟨1|2⟩|⟨3⟩⟩", "3ɾ", "`abc`", "⟨⟩", "5", "3ɾƛ2*;"]
        keys = [k for k, (t, a) in el.elements.items() if a in (1, 2, 3) and k not in ("Q", "Ė", "†", "¨U", "E", "□", "ß", ",", "…", "₴", "¨,", "¨…", "x", "Ḟ")]
        n = 0
        trials = 250 if tier != "thorough" else 6000
        fixed = [("⟨1|2|3⟩", [": 0 9Ȧ"], None), ("3ɾ", [": 0 9Ȧ"], None), ("1⅛ ¾ 2⅛", [], [[1]]), ("1⅛ 2⅛ ¾ ¼ _", [], [[1, 2]]), ("3ɾ →x ←x 1N i _ ←x", [], [[1, 2, 3]]), ("4ɾ £ ¥ ǔ _ ¥", [], [[1, 2, 3, 4]])]
        for prog, _, want in fixed[2:]:
            n += 1
            r = rc.run_program(prog, (), seconds=3)
            if r["error"] is None and rc.simp(r["stack"]) != want:
                return dict(program=prog, stack=repr(rc.simp(r["stack"])), expected=repr(want)), n
        for _ in range(trials):
            v = rnd.choice(values)
            ops = [rnd.choice(keys) for _ in range(rnd.randrange(1, 4))]
            args = " ".join(rnd.choice(["1", "2", "0", "`a`", "⟨4|5⟩"]) for _ in range(2))
            base = rc.run_program(v, (), seconds=3)
            if base["error"] is not None:
                continue
            want = rc.simp(base["stack"][-1])
            prog = f"{v} : {args} " + " ".join(ops) + " W _ "   # W wraps everything above; drop it; the first copy remains below
            prog = f"{v} : →keep {args} " + " ".join(ops) + " ←keep"
            n += 1
            r = rc.run_program(prog, (1, 2), seconds=3)
            if r["error"] is not None or not r["stack"]:
                continue
            got = rc.simp(r["stack"][-1])
            if got != want:
                return dict(program=prog, kept_copy_now=repr(got)[:200], value_before=repr(want)[:200]), n
        return None, n

    def bounded(self, W, tier, seed):
        w, n = self.copy_search(tier, seed)
        return [dict(name="C10/bounded-copies", what="<value> : →keep <arguments> <1-3 random elements> ←keep on the real interpreter: the kept duplicate must still denote the value; plus fixed histories over the global array, variables and the register", bound="250 (quick) / 6000 (thorough) random programs over 7 values", evaluations=n, label="bounded", failures=[w] if w else [])]

    def replay(self, W, report, ob):
        return self.copy_search("quick", 0)[0]

    def run_replay(self, path):
        import json

        d = json.load(open(path, encoding="utf-8"))
        print(json.dumps(d, ensure_ascii=False, indent=1)[:1500])
        return 0


PROP = C10()
