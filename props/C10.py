"""C10 -- values are immutable: no element changes a value another reference can see."""
from __future__ import annotations

import ast
import random

from .base import Prop, Ground
from . import runcommon as rc

MUTATORS = {"append", "extend", "insert", "pop", "remove", "sort", "reverse", "clear", "add", "update", "popleft", "appendleft", "discard", "setdefault"}
FRESH_CALLS = {"list", "sorted", "dict", "set", "tuple", "str", "int", "LazyList", "vyxalify", "range", "map", "filter", "zip", "enumerate", "reversed", "vy_str", "vy_repr", "simplify", "wrap", "pad_to_square"}
SAME_OBJECT_CALLS = {"iterable", "wrapify", "scalarify", "deep_copy_not"}  # return their argument itself for lists
SHALLOW_COPY_CALLS = {"list", "sorted", "reversed", "tuple", "copy"}  # a new container holding the same item objects


def owner_analysis(fn):
    """owner tags: names that may denote (or alias into) an argument, tracked in statement order (a name rebound to a
    fresh value stops being an owner; branches are joined by union, loop bodies are run to a fixpoint, closures see
    every name that is an owner anywhere in the function).  A mutating operation on an owner is a violation of the
    frame clause `modifies nothing reachable from the arguments`."""
    params = {a.arg for a in fn.args.args + fn.args.kwonlyargs if a.arg not in ("ctx", "self")}
    hits = set()
    ever = {p: "own" for p in params}
    nested = []

    def level(e, tainted):
        """None: fresh / unrelated; "own": may be (part of) an argument; "holds": a fresh container whose items may be
        items of an argument (shallow copies, comprehensions over an owner)"""
        if isinstance(e, ast.Name):
            return tainted.get(e.id)
        if isinstance(e, ast.IfExp):
            return join(level(e.body, tainted), level(e.orelse, tainted))
        if isinstance(e, ast.BoolOp):
            out = None
            for v in e.values:
                out = join(out, level(v, tainted))
            return out
        if isinstance(e, ast.NamedExpr):
            return level(e.value, tainted)
        if isinstance(e, ast.Call):
            f = e.func.id if isinstance(e.func, ast.Name) else getattr(e.func, "attr", None)
            if f in SAME_OBJECT_CALLS:
                out = None
                for a in e.args:
                    out = join(out, level(a, tainted))
                return out
            if f in SHALLOW_COPY_CALLS and e.args and level(e.args[0], tainted):
                return "holds"  # list(x), sorted(x), reversed(x), x.copy(): a new container of the same items
            return None
        if isinstance(e, ast.Subscript):
            base = level(e.value, tainted)
            if isinstance(e.slice, ast.Slice):
                return "holds" if base else None  # a slice copies the container, not the items
            return "own" if base else None  # an item of an owner (or of a holder) is reachable from the argument
        if isinstance(e, ast.BinOp) and isinstance(e.op, ast.Add):
            return "holds" if (level(e.left, tainted) or level(e.right, tainted)) else None
        if isinstance(e, (ast.ListComp, ast.GeneratorExp, ast.SetComp)):
            local = dict(tainted)
            for g in e.generators:
                if iter_level(g.iter, local):
                    for x in ast.walk(g.target):
                        if isinstance(x, ast.Name):
                            local[x.id] = "own"
            return "holds" if level(e.elt, local) else None
        if isinstance(e, (ast.Tuple, ast.List)):
            return "holds" if any(level(x, tainted) for x in e.elts) else None
        return None  # attributes, calls of anything else

    def join(a, b):
        return "own" if "own" in (a, b) else ("holds" if "holds" in (a, b) else None)

    def iter_level(it, tainted):
        """iterating an owner or a holder yields items that may be items of an argument"""
        if level(it, tainted):
            return True
        return isinstance(it, ast.Call) and getattr(it.func, "id", None) in ("enumerate", "zip", "reversed", "map", "filter") and any(level(a, tainted) for a in it.args)

    def may_alias(e, tainted):
        return level(e, tainted) == "own"

    def root_name(t):
        while isinstance(t, (ast.Subscript, ast.Attribute)):
            t = t.value
        return t.id if isinstance(t, ast.Name) else None

    def store_hits(t, tainted, lineno):
        """x[i] = v / x.a = v : container-level store on an owner; item-level store through a holder (x[i][j] = v)"""
        if not isinstance(t, (ast.Subscript, ast.Attribute)):
            return
        r = root_name(t)
        lv = tainted.get(r)
        if lv == "own" or (lv == "holds" and isinstance(t.value, (ast.Subscript, ast.Attribute))):
            hits.add((lineno, ast.unparse(t) + " = ..."))

    def scan_expr(e, tainted, lineno):
        """mutating calls inside one expression (lambdas and comprehensions included)"""
        if e is None:
            return
        local = dict(tainted)
        for n in ast.walk(e):
            if isinstance(n, ast.comprehension) and iter_level(n.iter, local):
                for x in ast.walk(n.target):
                    if isinstance(x, ast.Name):
                        local[x.id] = "own"
        for n in ast.walk(e):
            if isinstance(n, ast.Call) and isinstance(n.func, ast.Attribute) and n.func.attr in MUTATORS and level(n.func.value, local) == "own":
                hits.add((n.lineno, f"{ast.unparse(n.func.value)}.{n.func.attr}(...)"))
            if isinstance(n, ast.Call) and ast.unparse(n.func) in ("random.shuffle",) and n.args and level(n.args[0], local) == "own":
                hits.add((n.lineno, ast.unparse(n)))
            if isinstance(n, ast.NamedExpr) and isinstance(n.target, ast.Name):
                set_level(tainted, n.target.id, level(n.value, local))

    def set_level(tainted, name, lv):
        if lv:
            tainted[name] = lv
        else:
            tainted.pop(name, None)

    def bind(targets, lv, tainted):
        for t in targets:
            if isinstance(t, ast.Name):
                set_level(tainted, t.id, lv)
            elif isinstance(t, (ast.Tuple, ast.List)):
                bind(t.elts, "own" if lv else None, tainted)  # unpacking yields items
            elif isinstance(t, ast.Starred):
                bind([t.value], "holds" if lv else None, tainted)

    def merge(into, other):
        for k, v in other.items():
            into[k] = join(into.get(k), v)

    def run(stmts, tainted):
        for st in stmts:
            merge(ever, tainted)
            if isinstance(st, (ast.FunctionDef, ast.AsyncFunctionDef)):
                nested.append(st)
                continue
            if isinstance(st, (ast.Assign, ast.AnnAssign)):
                scan_expr(st.value, tainted, st.lineno)
                targets = st.targets if isinstance(st, ast.Assign) else [st.target]
                for t in targets:
                    store_hits(t, tainted, st.lineno)
                if st.value is not None:
                    bind(targets, level(st.value, tainted), tainted)
            elif isinstance(st, ast.AugAssign):
                scan_expr(st.value, tainted, st.lineno)
                store_hits(st.target, tainted, st.lineno)
            elif isinstance(st, ast.For):
                scan_expr(st.iter, tainted, st.lineno)
                src = iter_level(st.iter, tainted)
                for _ in range(3):
                    before = dict(tainted)
                    bind([st.target], "own" if src else None, tainted)
                    run(st.body, tainted)
                    merge(tainted, before)
                    if tainted == before:
                        break
                run(st.orelse, tainted)
            elif isinstance(st, ast.While):
                for _ in range(3):
                    before = dict(tainted)
                    scan_expr(st.test, tainted, st.lineno)
                    run(st.body, tainted)
                    merge(tainted, before)
                    if tainted == before:
                        break
                run(st.orelse, tainted)
            elif isinstance(st, ast.If):
                scan_expr(st.test, tainted, st.lineno)
                a, b = dict(tainted), dict(tainted)
                run(st.body, a)
                run(st.orelse, b)
                tainted.clear()
                merge(tainted, a)
                merge(tainted, b)
            elif isinstance(st, ast.Try):
                before = dict(tainted)
                run(st.body, tainted)
                outs = dict(tainted)
                merge(outs, before)
                for h in st.handlers:
                    hs = dict(outs)
                    run(h.body, hs)
                    merge(tainted, hs)
                run(st.orelse, tainted)
                run(st.finalbody, tainted)
            elif isinstance(st, ast.With):
                for it in st.items:
                    scan_expr(it.context_expr, tainted, st.lineno)
                run(st.body, tainted)
            else:
                for child in ast.iter_child_nodes(st):
                    if isinstance(child, ast.expr):
                        scan_expr(child, tainted, st.lineno)
        merge(ever, tainted)

    run(fn.body, {p: "own" for p in params})
    done = 0
    while done < len(nested):  # closures run at an unknown time: every name that is an owner anywhere counts
        nd = nested[done]
        done += 1
        run(nd.body, dict(ever))
    return sorted(hits)


ALLOWED_CACHE_USES = {
    "read",
    "rebind in __init__",  # the cache starts empty
    "append in __next__",  # the only way an item enters the cache
    "extend in reversed",  # reversed() drains the rest of the source into the cache (appends at the end)
    "setitem in __setitem__",  # the documented exception: reachable only from assign_iterable, which works on a copy
    "escape: ctx.stacks.append(self.generated) in output",  # output() registers the cache as the current stack while printing and pops it (C12)
}


def cache_uses(cls):
    """every syntactic use of `self.generated` inside class LazyList, classified: reads (index, slice, len, truth,
    iteration, membership) / the write forms / `escape`: the cache object itself leaves the method (returned, stored,
    passed on), after which nothing here can say who mutates it"""
    forms = set()
    for meth in [n for n in cls.body if isinstance(n, ast.FunctionDef)]:
        parents = {}
        for p in ast.walk(meth):
            for c in ast.iter_child_nodes(p):
                parents[id(c)] = p
        for x in ast.walk(meth):
            if not (isinstance(x, ast.Attribute) and x.attr == "generated" and isinstance(x.value, ast.Name) and x.value.id == "self"):
                continue
            p = parents.get(id(x))
            if isinstance(x.ctx, ast.Store):
                forms.add(("extend in " if isinstance(p, ast.AugAssign) and isinstance(p.op, ast.Add) else "rebind in ") + meth.name)
            elif isinstance(p, ast.AugAssign) and p.target is x:
                forms.add(("extend in " if isinstance(p.op, ast.Add) else "augassign in ") + meth.name)
            elif isinstance(p, ast.Subscript) and p.value is x:
                forms.add("read" if isinstance(p.ctx, ast.Load) else ("setitem in " + meth.name if isinstance(p.ctx, ast.Store) else "delitem in " + meth.name))
            elif isinstance(p, ast.Attribute) and p.value is x:
                forms.add(("append in " + meth.name) if p.attr == "append" else ("read" if p.attr in ("count", "index", "copy") else f"mutate .{p.attr} in {meth.name}"))
            elif isinstance(p, ast.Call) and x in p.args and ast.unparse(p.func) in ("len", "bool", "iter", "list", "tuple", "sorted", "reversed", "enumerate", "sum", "any", "all", "str", "repr"):
                forms.add("read")
            elif isinstance(p, (ast.If, ast.While, ast.IfExp)) and p.test is x or isinstance(p, ast.UnaryOp) and isinstance(p.op, ast.Not) or isinstance(p, ast.BoolOp):
                forms.add("read")
            elif isinstance(p, (ast.For, ast.comprehension)) and p.iter is x or isinstance(p, ast.YieldFrom) or isinstance(p, ast.Compare):
                forms.add("read")
            elif isinstance(p, ast.BinOp):
                forms.add("read")  # cache + other builds a new list
            else:
                forms.add(f"escape: {ast.unparse(p)[:80]} in {meth.name}")
    return forms


class C10(Prop):
    id = "C10"
    level = "other"
    contract_modules = []
    trusted_base = ["aliasing is tracked syntactically per function (owner tags: a name that may denote an argument or an item of one); the analysis does not follow values through containers other than the argument itself", "C functions of the standard library do not mutate their arguments except the listed mutators"]
    paper_steps = [
        "frame clause `modifies nothing reachable from the arguments` for every function of elements.py and helpers.py: every mutating operation (item / attribute assignment, list mutators, random.shuffle) must act on a name that cannot alias an argument (ground, syntactic, complete over the two files)",
        "the lazy list cache is append-only and private: every use of self.generated in LazyList.py is a read, the append in __next__, the extension in reversed(), the initial binding, __setitem__ (reachable only from assign_iterable, on a copy) or output()'s registration as a stack; it is never returned or stored elsewhere (obligation C10/lazylist-cache-append-only)",
        "what the structure templates publish (context value n, input scope of a lambda / function) is a copy of the working stack, never the stack itself (obligations C10/published-values-are-copies[*] on the code emitted by the real transpile)",
        "copy-on-duplicate: the templates of : D Ḃ ¾ push deep_copy(...) / list(deep_copy(...)) (ground on the live table); deep_copy itself and the laziness of its tee are exercised by the bounded program-level run only",
    ]

    def keys(self, W):
        return []

    def ground(self, W, tier, seed):
        import vyxal.elements as el

        g = []
        n_fn = 0
        for rel in ("vyxal/elements.py", "vyxal/helpers.py"):
            mod, _ = W.module_ast(rel)
            for fn in [n for n in mod.body if isinstance(n, ast.FunctionDef)]:
                n_fn += 1
                if fn.name in ("pop", "wrapify", "function_call"):
                    continue  # the stack protocol: these receive the operand stack (not a Vyxal value) and pop from it by design
                hits = owner_analysis(fn)
                g.append(Ground(f"C10/frame[{rel}::{fn.name}]", not hits, "; ".join(f"line {l}: {t}" for l, t in hits), witness=dict(function=fn.name, operations=[t for _, t in hits]) if hits else None, native=False))
        g.append(Ground("C10/functions-scanned", n_fn > 300, f"{n_fn} functions"))
        # the lazy list's cache is append-only and never leaves the object
        mod, _ = W.module_ast("vyxal/LazyList.py")
        cls = [n for n in mod.body if isinstance(n, ast.ClassDef) and n.name == "LazyList"]
        if not cls:
            g.append(Ground("C10/lazylist-cache-append-only", False, "class LazyList not found"))
        else:
            extra = sorted(cache_uses(cls[0]) - ALLOWED_CACHE_USES)
            g.append(Ground("C10/lazylist-cache-append-only", not extra, f"uses of self.generated beyond reads and the listed writes: {extra}", witness=dict(uses=extra) if extra else None, native=False))
        for k, want in ((":", "stack.append(deep_copy(top))"), ("D", "stack.append(deep_copy(top))"), ("Ḃ", "stack.append(deep_copy(top))"), ("¾", "list(deep_copy(ctx.global_array))")):
            g.append(Ground(f"C10/copy-on-duplicate[{k}]", want in el.elements[k][0], f"template: {el.elements[k][0][:120]}", witness=dict(element=k), native=False))
        # structure templates: what a function / lambda / loop publishes as its context value or input scope must be a
        # copy, never the live working stack (a later push or pop would change a value somebody already holds)
        from vyxal.transpile import transpile

        LIVE = {"stack", "arg_stack", "parameters"}

        def aliases(e):
            if isinstance(e, ast.Name):
                return e.id in LIVE
            if isinstance(e, ast.Call):
                f = ast.unparse(e.func)
                if f in ("deep_copy", "list", "tuple", "sorted", "vyxalify"):
                    return False if f == "deep_copy" else any(aliases(a) and not isinstance(a, ast.Name) for a in e.args)  # list(stack) copies the container
                return False
            if isinstance(e, ast.Subscript):
                return False if isinstance(e.slice, ast.Slice) else aliases(e.value)  # stack[0] is an item of the live stack
            if isinstance(e, ast.IfExp):
                return aliases(e.body) or aliases(e.orelse)
            if isinstance(e, (ast.List, ast.Tuple)):
                return any(aliases(x) for x in e.elts)
            return False

        for prog in ("λ1;", "λ2|1;", "ƛ1;", "'1;", "µ1;", "@f|1;", "@f:a|1;", "@f:2|1;", "@f:a:b|1;", "@f:*|1;", "(1)", "(i|1)", "{1|1}", "⟨1|2⟩", "λ1X;", "@f:2|1X;"):
            try:
                tree = ast.parse(transpile(prog))
            except Exception as e:  # noqa
                g.append(Ground(f"C10/published-values-are-copies[{prog}]", False, f"cannot transpile / parse: {e}"))
                continue
            bad = []
            for x in ast.walk(tree):
                if isinstance(x, ast.Call) and ast.unparse(x.func) in ("ctx.context_values.append", "ctx.inputs.append") and x.args and aliases(x.args[0]):
                    bad.append(ast.unparse(x)[:100])
            g.append(Ground(f"C10/published-values-are-copies[{prog}]", not bad, f"the live stack (or an item of it) is published uncopied: {bad}", witness=dict(program=prog, calls=bad) if bad else None, native=False))
        # modifier templates must not write attributes of the function value they were given
        for k, tpl in el.modifiers.items():
            stores = [ast.unparse(t) for st in ast.walk(ast.parse(tpl)) if isinstance(st, ast.Assign) for t in st.targets if isinstance(t, ast.Attribute) and isinstance(t.value, ast.Name) and t.value.id.startswith("function_")]
            g.append(Ground(f"C10/modifier-leaves-function-value-alone[{k}]", not stores, f"{stores}", witness=dict(modifier=k, stores=stores) if stores else None, native=False))
        return g

    # ---- bounded: <value> <copy-op> <elements> and compare the untouched copy
    def copy_search(self, tier, seed):
        import vyxal.elements as el

        rnd = random.Random(seed)
        values = ["⟨1|2|3⟩", "⟨⟨1|2⟩|⟨3⟩⟩", "3ɾ", "`abc`", "⟨⟩", "5", "3ɾƛ2*;"]
        keys = [k for k, (t, a) in el.elements.items() if a in (1, 2, 3) and k not in ("Q", "Ė", "†", "¨U", "E", "□", "ß", ",", "…", "₴", "¨,", "¨…", "x", "Ḟ")]
        n = 0
        trials = 250 if tier != "thorough" else 6000
        fixed = [("⟨1|2|3⟩", [": 0 9Ȧ"], None), ("3ɾ", [": 0 9Ȧ"], None), ("1⅛ ¾ 2⅛", [], [[1]]), ("1⅛ 2⅛ ¾ ¼ _", [], [[1, 2]]), ("3ɾ →x ←x 1N i _ ←x", [], [[1, 2, 3]]), ("4ɾ £ ¥ ǔ _ ¥", [], [[1, 2, 3, 4]])]
        for prog, _, want in fixed[2:]:
            n += 1
            r = rc.run_program(prog, (), seconds=3)
            if r["error"] is None and rc.simp(r["stack"]) != want:
                return dict(program=prog, stack=repr(rc.simp(r["stack"])), expected=repr(want)), n
        for _ in range(trials):
            v = rnd.choice(values)
            ops = [rnd.choice(keys) for _ in range(rnd.randrange(1, 4))]
            args = " ".join(rnd.choice(["1", "2", "0", "`a`", "⟨4|5⟩"]) for _ in range(2))
            base = rc.run_program(v, (), seconds=3)
            if base["error"] is not None:
                continue
            want = rc.simp(base["stack"][-1])
            prog = f"{v} : {args} " + " ".join(ops) + " W _ "   # W wraps everything above; drop it; the first copy remains below
            prog = f"{v} : →keep {args} " + " ".join(ops) + " ←keep"
            n += 1
            r = rc.run_program(prog, (1, 2), seconds=3)
            if r["error"] is not None or not r["stack"]:
                continue
            got = rc.simp(r["stack"][-1])
            if got != want:
                return dict(program=prog, kept_copy_now=repr(got)[:200], value_before=repr(want)[:200]), n
        return None, n

    def bounded(self, W, tier, seed):
        w, n = self.copy_search(tier, seed)
        return [dict(name="C10/bounded-copies", what="<value> : →keep <arguments> <1-3 random elements> ←keep on the real interpreter: the kept duplicate must still denote the value; plus fixed histories over the global array, variables and the register", bound="250 (quick) / 6000 (thorough) random programs over 7 values", evaluations=n, label="bounded", failures=[w] if w else [])]

    def replay(self, W, report, ob):
        return self.copy_search("quick", 0)[0]

    def run_replay(self, path):
        import json

        d = json.load(open(path, encoding="utf-8"))
        print(json.dumps(d, ensure_ascii=False, indent=1)[:1500])
        return 0


PROP = C10()
