"""C12 -- interpreter context is balanced after every construct."""
from __future__ import annotations

import random
import re

from .base import Prop, Ground
from . import runcommon as rc


class C12(Prop):
    id = "C12"
    contract_modules = ["inputs", "templates", "lazylist"]
    trusted_base = ["CPython semantics of the subset (DESIGN 2.2)", "z3 5.1 / cvc5 1.0.3 (unsat answers)", "compositionality of transpile (template with holes := transpile of the parts), cross-checked bounded"]
    paper_steps = [
        "structural induction over the program tree: each leaf template and each structure template (obtained from the real transpile() on probe programs, sub-programs as holes carrying the hypothesis) preserves the depth of the four bookkeeping lists on normal exit and on every lowered break/continue/return",
        "element functions without a contract are uninterpreted; the ones that touch ctx bookkeeping (vy_print on lazy lists -> LazyList.output) have their own contract",
    ]

    def wants(self, name):
        return "C11-" not in name and "C09-" not in name

    def depth_search(self, progs, seed=0, budget_s=150):
        import time

        n = 0
        t0 = time.time()
        for p, inputs in progs:
            if time.time() - t0 > budget_s:
                break
            n += 1
            r = rc.run_program(p, inputs, seconds=2)
            if r["error"] is None and r["depths"] != (1, 1, 1, 0):
                self.last_n = n
                return dict(program=p, inputs=list(inputs), depths_after=list(r["depths"]), expected=[1, 1, 1, 0])
        self.last_n = n
        return None

    def programs(self, rnd, n):
        bodies = ["1", "n", "n,", "1+", ":", "_", "n2%[X]", "n2%[x]", "X", "x", "n3=[X]n", "3ɾ,", "λn;†", "⟨n|1⟩", "2(nX)", "2(n x)", "λ1X;†", "ƛ1+;", "λ2|+;", "3ɾ", "1 2", "`a`,"]
        out = []
        for _ in range(n):
            k = rnd.randrange(7)
            b = "".join(rnd.choice(bodies) + " " for _ in range(rnd.randrange(1, 3)))
            if k == 0:
                p = f"3({b})"
            elif k == 1:
                p = f"1 3({b})"
            elif k == 2:
                p = f"0{{:3<|{b.replace('x', '')}›}}"
            elif k == 3:
                p = f"1 2 λ{b.replace('x', '')};†"
            elif k == 4:
                p = f"3ɾƛ{b.replace('x', '').replace('X', '')};"
            elif k == 5:
                p = f"@f:a|{b.replace('x', '')};5@f;"
            else:
                p = f"[{b}|{b}]"
            out.append((p, (3, 4)))
        return out

    def replay(self, W, report, ob):
        name = ob["name"]
        m = re.search(r"struct\[([^\]]+)\]", name)
        progs = []
        if m:
            from contracts.templates import PROBES

            prog = dict(PROBES).get(m.group(1))
            if prog:
                for a, b in (("1", "2"), ("n", "n,"), ("1 2", ":")):
                    p = prog.replace("7001", a).replace("7002", b).replace("7003", "3").replace("7004", "4")
                    progs += [("3" + p, (5, 6)), ("1 2 3" + p + "†", (5, 6)), (p, (5, 6)), ("3ɾ" + p, (5, 6))]
        m = re.search(r"elements\[([^\]]+)\]", name)
        if m:
            k = m.group(1)
            progs += [(f"1 2 3 {k}", (5, 6)), (f"`ab` 2 {k}", (5,)), (f"3ɾ {k}", ()), (f"3({k})", (1, 2))]
        if "while-continue" in name:
            progs.insert(0, ("0£ 1{¥›£ ¥3<[x] X}", ()))
        w = self.depth_search(progs, budget_s=40)
        if w:
            return w
        return self.depth_search(self.programs(random.Random(1), 300), budget_s=50)

    def stale_search(self, W, key, seed):
        return self.depth_search(self.programs(random.Random(seed), 600))

    def bounded(self, W, tier, seed):
        n = 400 if tier != "thorough" else 6000
        w = self.depth_search(self.programs(random.Random(seed), n))
        return [dict(name="C12/bounded-depth-sweep", what="generated terminating programs with break/continue/lambdas/functions/lazy printing run on the real interpreter; depth tuple compared with (1,1,1,0)", bound=f"{n} programs", evaluations=self.last_n, label="bounded", failures=[w] if w else [])]

    def run_replay(self, path):
        import json

        d = json.load(open(path, encoding="utf-8"))
        print(json.dumps(d, ensure_ascii=False, indent=1)[:1500])
        w = d.get("witness") or {}
        if "program" in w:
            r = rc.run_program(w["program"], w.get("inputs", ()))
            print("depths now:", r["depths"], "error:", r["error"])
            return 1 if r["depths"] != (1, 1, 1, 0) else 0
        return 0


PROP = C12()
