"""C18 -- generated Python contains program text only as constants."""
from __future__ import annotations

import ast
import itertools
import random
import re

from .base import Prop, Ground

ALLOWED_ID = set("ABCDEFGHIJKLMNOPQRSTUVWXYZabcdefghijklmnopqrstuvwxyz0123456789_")

# every interpolation site of vyxal/transpile.py: (function, expression text) -> class
SITES = {
    ("transpile_single", "type(token_or_struct).__name__"): "error-message (raise, never part of the output)",
    ("transpile_single", "token_or_struct"): "error-message (raise, never part of the output)",
    ("transpile_token", "token"): "error-message (raise, never part of the output)",
    ("transpile_structure", "struct"): "error-message (raise, never part of the output)",
    ("transpile_token", "temp"): "string-literal body: escaped by the loop above it (every quote and newline escaped, backslashes kept in pairs)",
    ("transpile_token", "parts"): "inside a string literal; NUMBER token text is over [0-9.°] (lemma number_token_is_digits), rewritten over [0-9.+* I]",
    ("transpile_token", "uncompress(token)"): "int (COMPRESSED_NUMBER) or repr() of a str (COMPRESSED_STRING, conversion !r)",
    ("transpile_token", "token.value"): "identifier after the fixed prefix VAR_: VARIABLE token text is over [A-Za-z_] (lemma variable_token_is_letters); or repr() of a str (CHARACTER, !r)",
    ("transpile_token", "encoding.codepage.find(token.value) + 101"): "int",
    ("transpile_structure", "var"): "identifier: assigned from re.sub(<class whose complement is inside [A-Za-z0-9_]>, '', ...) directly before",
    ("transpile_structure", "secrets.token_hex(16)"): "hex digits",
    ("transpile_structure", "int(parameter)"): "int",
    ("transpile_structure", "re.sub('[^A-Za-z0-9_]', '', parameter)"): "identifier: sanitised in place",
    ("transpile_lambda", "id_"): "hex digits (secrets.token_hex)",
}


def char_class_complement_ok(pattern):
    """pattern must be a negated class [^...]; every character it does NOT remove must be an identifier character"""
    m = re.fullmatch(r"\[\^(.*)\]", pattern, re.S)
    if not m:
        return False, "not a negated character class"
    rx = re.compile(pattern)
    bad = [chr(c) for c in range(0, 0x3000) if not rx.match(chr(c)) and chr(c) not in ALLOWED_ID]
    return not bad, f"characters that survive the filter: {bad[:12]}"


class C18(Prop):
    id = "C18"
    contract_modules = ["lexer", "transpiler"]
    extra_keys = ["vyxal/lexer.py::tokenise", "vyxal/transpile.py::transpile_token", "vyxal/helpers.py::from_base_alphabet", "vyxal/helpers.py::uncompress_num", "vyxal/helpers.py::uncompress_str"]
    trusted_base = ["CPython repr(str) yields one string literal; int formatting yields -?[0-9]+", "re.sub with a negated character class is a character filter", "z3 5.1 / cvc5 1.0.3 (unsat answers)"]
    paper_steps = ["every place where transpile.py interpolates a value into its output is enumerated from the ast and must be claimed by the table SITES with its class (constant position or sanitised identifier); tokenise == lex (proved) with the two token-text lemmas gives the character sets of names and numbers; everything else in the output is template text from the element table"]

    def ground(self, W, tier, seed):
        g = []
        mod, src = W.module_ast("vyxal/transpile.py")
        found = set()
        for fn in [n for n in mod.body if isinstance(n, ast.FunctionDef)]:
            for x in ast.walk(fn):
                if isinstance(x, ast.FormattedValue):
                    found.add((fn.name, ast.unparse(x.value)))
                if isinstance(x, ast.BinOp) and isinstance(x.op, (ast.Add, ast.Mod)):
                    for side in (x.left, x.right):
                        if isinstance(side, ast.Call) and isinstance(side.func, ast.Name) and side.func.id == "str":
                            found.add((fn.name, ast.unparse(side)))
        expected = set(SITES) | {("transpile_lambda", "str(lam.arity)")}
        for site in sorted(found - expected):
            g.append(Ground(f"C18/unclaimed-interpolation-site[{site[0]}: {site[1][:60]}]", False, "a value is interpolated into the generated Python at a site no contract clause classifies", witness=dict(function=site[0], expression=site[1]), native=False))
        g.append(Ground("C18/interpolation-sites-enumerated", len(found) >= 10, f"{len(found)} sites"))
        # lambda arity: an int parsed by parse() or the literal 'default'
        pmod, _ = W.module_ast("vyxal/parse.py")
        ok_arity = "arity = int(branches[0][0].value)" in ast.unparse(pmod)
        g.append(Ground("C18/lambda-arity-is-int", ok_arity, "parse() must turn the arity branch into an int before it reaches str(lam.arity)"))
        # sanitisers
        n_subs = 0
        for rel in ("vyxal/transpile.py", "vyxal/parse.py"):
            m, _ = W.module_ast(rel)
            for x in ast.walk(m):
                if isinstance(x, ast.Call) and ast.unparse(x.func) == "re.sub" and len(x.args) == 3 and isinstance(x.args[0], ast.Constant) and isinstance(x.args[1], ast.Constant) and x.args[1].value == "":
                    n_subs += 1
                    pat = x.args[0].value
                    allowed_extra = ""
                    ok, detail = char_class_complement_ok(pat)
                    g.append(Ground(f"C18/sanitiser-class[{rel}:{pat}]", ok, detail, witness=dict(file=rel, pattern=pat, line=x.lineno), native=False))
        g.append(Ground("C18/sanitisers-found", n_subs >= 5, f"{n_subs} re.sub filters"))
        # a filter must remove EVERY offending character: re.sub(pattern, repl, string) with nothing in the count position
        for rel in ("vyxal/transpile.py", "vyxal/parse.py", "vyxal/lexer.py", "vyxal/helpers.py"):
            m, _ = W.module_ast(rel)
            for x in ast.walk(m):
                if isinstance(x, ast.Call) and ast.unparse(x.func) in ("re.sub", "re.subn") and x.args and isinstance(x.args[1] if len(x.args) > 1 else None, ast.Constant) and x.args[1].value == "":
                    limited = len(x.args) > 3 or any(k.arg == "count" for k in x.keywords)
                    g.append(Ground(f"C18/sanitiser-filters-every-occurrence[{rel}:{ast.unparse(x.args[0])[:30]}]", not limited, "a fourth positional argument of re.sub is `count` (re.ASCII there means count=256): characters beyond it survive", witness=dict(file=rel, line=x.lineno, call=ast.unparse(x)[:120]) if limited else None, native=False))
        # `var` in transpile_structure: every assignment from program text is followed by the filter
        ts = [n for n in mod.body if isinstance(n, ast.FunctionDef) and n.name == "transpile_structure"][0]
        bad = []
        for blk in ast.walk(ts):
            body = getattr(blk, "body", None)
            if not isinstance(body, list):
                continue
            for i, st in enumerate(body):
                if isinstance(st, ast.Assign) and len(st.targets) == 1 and isinstance(st.targets[0], ast.Name) and st.targets[0].id == "var":
                    rhs = ast.unparse(st.value)
                    safe = rhs.startswith("re.sub(") or rhs.startswith("f'VAR_{var}'") or rhs == "'ctx.ghost_variable'"
                    if not safe:
                        nxt = body[i + 1] if i + 1 < len(body) else None
                        if not (isinstance(nxt, ast.Assign) and ast.unparse(nxt.targets[0]) == "var" and ast.unparse(nxt.value).startswith("re.sub(")):
                            bad.append(f"line {st.lineno}: var = {rhs[:60]}")
        g.append(Ground("C18/var-always-filtered-before-use", not bad, "; ".join(bad)))
        return g

    # ---- bounded injection run on the real transpiler
    def whitelist(self):
        import vyxal.elements as el

        names = set()
        for tpl, _ in el.elements.values():
            try:
                for x in ast.walk(ast.parse(tpl)):
                    if isinstance(x, ast.Name):
                        names.add(x.id)
                    if isinstance(x, ast.Attribute):
                        names.add(x.attr)
            except SyntaxError:
                pass
        for tpl in el.modifiers.values():
            for x in ast.walk(ast.parse(tpl)):
                if isinstance(x, ast.Name):
                    names.add(x.id)
                if isinstance(x, ast.Attribute):
                    names.add(x.attr)
        names |= {"stack", "ctx", "pop", "wrapify", "boolify", "condition", "iterable", "range", "sympy", "nsimplify", "append", "context_values", "inputs", "stacks", "function_stack", "deep_copy", "list", "len",
                  "arg_stack", "self", "arity", "this", "res", "ret", "parameters", "temp_list", "list_item", "s", "f", "function_A", "function_B", "function_C", "vy_print", "ghost_variable", "default_arity", "stored_arity", "dir",
                  "None", "Rational", "vyxalify"}
        return names

    def check_code(self, code, names):
        import warnings

        try:
            with warnings.catch_warnings():
                warnings.simplefilter("ignore")
                tree = ast.parse(code)
        except SyntaxError:
            return None  # uncompilable output executes nothing (C02's subject)
        for x in ast.walk(tree):
            ident = None
            if isinstance(x, ast.Name):
                ident = x.id
            elif isinstance(x, ast.Attribute):
                ident = x.attr
            elif isinstance(x, ast.FunctionDef):
                ident = x.name
            elif isinstance(x, ast.arg):
                ident = x.arg
            if ident is None:
                continue
            if ident in names or re.fullmatch(r"(VAR_[A-Za-z0-9_]*|_lambda_[0-9a-f]{32})", ident):
                continue
            return f"identifier {ident!r} is neither template vocabulary nor VAR_<sanitised>"
        return None

    def injection_search(self, tier, seed):
        from vyxal.transpile import transpile

        names = self.whitelist()
        alpha = ['"', "'", "\\", "\n", "[", "]", "(", ")", "^", "`", ":", ";", "a", "b", "1", "0", " ", "|", "_", ".", "#", "{", "}", "\t", "é"]
        positions = ["`{}`", "‛{}", "\\{}", "→{}", "←{}", "({}|1)", "@{};", "@{}|1;", "→f @{};", "@f:{}|1;", "@f:a:{}|1;", "@f:{}:{}|1;", "λ{}|1;", "«{}«", "»{}»", "⁺{}", "{}"]
        n = 0
        maxlen = 2 if tier != "thorough" else 3
        payloads = [""] + ["".join(p) for L in range(1, maxlen + 1) for p in itertools.product(alpha, repeat=L)]
        payloads += ['");x=1#', '\\");x=1#', "a[b]", "a^b", "__import__", "\\`", "\\\\`"]
        # boundary sizes: long runs of characters a sanitiser has to remove before the payload (a filter limited to a count lets the rest through)
        payloads += [junk * k + "\nPWNED=7\ndict" for junk in ("-", " ", "é") for k in (255, 256, 300, 1000)]
        for pos in positions:
            for p in payloads:
                prog = pos.replace("{}", p)
                n += 1
                try:
                    code = transpile(prog)
                except Exception:  # noqa
                    continue
                err = self.check_code(code, names)
                if err:
                    return dict(program=prog, position=pos, payload=p, problem=err, code=code[:300]), n
        rnd = random.Random(seed)
        import vyxal.encoding as enc

        for _ in range(1500 if tier != "thorough" else 20000):
            prog = "".join(rnd.choice(enc.codepage + "\"'\\\n[]^`:;") for _ in range(rnd.randrange(1, 40)))
            n += 1
            try:
                code = transpile(prog)
            except Exception:  # noqa
                continue
            err = self.check_code(code, names)
            if err:
                return dict(program=prog, problem=err, code=code[:300]), n
        return None, n

    def bounded(self, W, tier, seed):
        w, n = self.injection_search(tier, seed)
        return [dict(name="C18/bounded-injection", what="adversarial payloads at every syntactic position that accepts program-chosen text, and random programs; the generated Python is parsed and every identifier must be template vocabulary or VAR_<sanitised>", bound="payload length <= 2 (quick) / 3 (thorough) over 23 characters x 16 positions; random programs to length 40", evaluations=n, label="bounded", failures=[w] if w else [])]

    def replay(self, W, report, ob):
        if report["key"].endswith("::tokenise"):
            from . import parsecommon as pc

            return pc.search_lexer()
        return self.injection_search("quick", 0)[0]

    def stale_search(self, W, key, seed):
        return self.injection_search("quick", seed)[0]

    def run_replay(self, path):
        import json

        d = json.load(open(path, encoding="utf-8"))
        print(json.dumps(d, ensure_ascii=False, indent=1)[:1500])
        w = d.get("witness") or {}
        if "program" in w:
            from vyxal.transpile import transpile

            err = self.check_code(transpile(w["program"]), self.whitelist())
            print("now:", err)
            return 1 if err else 0
        return 0


PROP = C18()
