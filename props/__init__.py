"""One module per property: which contracts / lemmas / ground obligations / bounded
stand-ins decide it, how a refuted obligation is replayed on the real code."""
