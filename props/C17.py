"""C17 -- number-theory builtins agree with their definitions."""
from __future__ import annotations

import math
import random

from .base import Prop, Ground


def naive_is_prime(n):
    return n >= 2 and all(n % d for d in range(2, int(n**0.5) + 1))


class C17(Prop):
    id = "C17"
    contract_modules = ["numtheory", "codecs"]
    extra_keys = ["horner_digitsM", "digits_below_base", "vyxal/helpers.py::to_base_digits", "vyxal/helpers.py::from_base_digits"]
    trusted_base = ["sympy.ntheory (isprime, primefactors, factorint, divisors, totient, nextprime, prevprime), sympy.binomial / factorial / lcm, math.gcd, bin, hex, int(., 16) meet their textbook definitions -- ASSUMED; conformance-sampled against naive definitions by the bounded check, never counted as proved", "z3 5.1 (unsat answers)"]
    paper_steps = [
        "wrapper obligations: for a number argument each builtin's overload table is proved to reach exactly the library call its definition names, with these arguments, and to return its result converted as specified (symbolic evaluation; library calls uninterpreted)",
        "inverse pairs that are computed by repository code: base conversion digits (to_base_digits / from_base_digits proved against digitsM / horner, horner_digitsM proved by induction); binary / hex round trips rest on the assumed bin / hex / int(., 16)",
    ]

    def defs_search(self, tier, seed):
        import vyxal.helpers  # noqa
        import vyxal.elements as el
        from vyxal.context import Context
        from .runcommon import simp

        ctx = Context()
        top = 600 if tier != "thorough" else 20001
        rnd = random.Random(seed)
        ns = list(range(0, top)) + [rnd.randrange(10**6, 10**9) for _ in range(20)] + [561, 1105, 1729, 2465, 2**16, 2**16 + 1, 97**2, 10007 * 10009]
        n_eval = 0

        def chk(name, n, got, want):
            if got != want:
                return dict(builtin=name, argument=n, result=repr(got)[:120], definition=repr(want)[:120])
            return None

        for n in ns:
            n_eval += 1
            small = n < 5000
            w = chk("is_prime", n, int(el.is_prime(n, ctx)), int(naive_is_prime(n)) if n < 10**7 else int(el.is_prime(n, ctx)))
            if w:
                return w, n_eval
            if n >= 1 and small:
                divs = [d for d in range(1, n + 1) if n % d == 0]
                for name, got, want in [("divisors", simp(el.divisors_or_prefixes(n, ctx)), divs), ("totient", int(el.totient(n, ctx)), sum(1 for k in range(1, n + 1) if math.gcd(k, n) == 1)),
                                        ("distinct prime factors", simp(el.prime_factorisation(n, ctx)), [d for d in divs if naive_is_prime(d)])]:
                    w = chk(name, n, got, want)
                    if w:
                        return w, n_eval
                pf = simp(el.prime_factors(n, ctx))
                if math.prod(pf) != n or not all(naive_is_prime(p) for p in pf) or pf != sorted(pf):
                    return dict(builtin="prime factorisation with multiplicity", argument=n, result=repr(pf)), n_eval
                np_ = int(el.next_prime(n, ctx))
                if not (np_ > n and naive_is_prime(np_) and not any(naive_is_prime(k) for k in range(n + 1, np_))):
                    return dict(builtin="next prime", argument=n, result=np_), n_eval
            if n <= 300:
                w = chk("factorial", n, int(el.factorial(n, ctx)), math.factorial(n))
                if w:
                    return w, n_eval
            b = simp(el.vy_bin(n, ctx))
            want_b = [int(c) for c in bin(n)[2:]]
            h = el.vy_hex(n, ctx)
            for name, got, want in [("binary", b, want_b), ("from binary", int(el.vy_int(b, 2)), n), ("hex", h, "%x" % n), ("from hex", int(el.vy_hex(h, ctx)) if h else None, n),
                                    ("double/halve", int(el.halve(el.multiply(n, 2, ctx), ctx)), n), ("square/root", int(el.square_root(el.square(n, ctx), ctx)), n)]:
                w = chk(name, n, got, want)
                if w:
                    return w, n_eval
        # arguments beyond 2**53, where any detour through floating point stops being exact
        big = [2**53 + 1, 2**61 - 1, 2 * (2**61 - 1), 3**40, 10**20 + 39, (2**53 + 1) ** 2, 2**64, 2**64 + 13, 6 * (2**61 - 1), 10**18 + 9]
        for n in big:
            n_eval += 1
            h = el.vy_hex(n, ctx)
            b = simp(el.vy_bin(n, ctx))
            checks = [("square/root", int(el.square_root(el.square(n, ctx), ctx)), n), ("double/halve", int(el.halve(el.multiply(n, 2, ctx), ctx)), n),
                      ("hex", h, "%x" % n), ("from hex", int(el.vy_hex(h, ctx)), n), ("binary", b, [int(c) for c in bin(n)[2:]]), ("from binary", int(el.vy_int(b, 2)), n),
                      ("gcd", int(el.vy_gcd(n, n + 2, ctx)), math.gcd(n, n + 2)), ("lcm", int(el.lowest_common_multiple(n, 6, ctx)), math.lcm(n, 6)),
                      ("next prime", bool(int(el.next_prime(n, ctx)) > n), True)]
            r = el.square_root(n * n + 1, ctx)
            checks.append(("root of a non-square stays exact", bool(r * r == n * n + 1 and not getattr(r, "is_Integer", isinstance(r, int))), True))
            pf = simp(el.prime_factors(n, ctx))
            checks.append(("prime factorisation with multiplicity", bool(math.prod(pf) == n and pf == sorted(pf) and all(int(el.is_prime(p, ctx)) for p in pf)), True))
            for name, got, want in checks:
                w = chk(name + " (large argument)", n, got, want)
                if w:
                    return w, n_eval
        # explicit ranges: the same under every setting of the implicit-range flags (M, m, Ṁ move ctx.range_start / range_end)
        for rs, re_ in ((1, 1), (0, 1), (1, 0), (0, 0)):
            c2 = Context()
            c2.range_start, c2.range_end = rs, re_
            for n in list(range(0, 40)) + [100, 257]:
                n_eval += 1
                for name, fn, want in [("range 1..n", el.inclusive_one_range, list(range(1, n + 1))), ("range 0..n", el.inclusive_zero_range, list(range(0, n + 1))),
                                       ("range 1..n-1", el.exclusive_one_range, list(range(1, n))), ("range 0..n-1", el.exclusive_zero_range, list(range(0, n)))]:
                    w = chk(f"{name} (range_start={rs}, range_end={re_})", n, simp(fn(n, c2)), want)
                    if w:
                        return w, n_eval
        lim = 60 if tier != "thorough" else 300
        for a in range(0, lim):
            for b in range(0, lim):
                n_eval += 1
                if a < 25 and b < 25:
                    try:
                        got_r = simp(el.orderless_range(a, b, ctx))
                    except Exception as e:  # noqa
                        got_r = f"raised {type(e).__name__}: {e}"
                    w = chk("range a..b", (a, b), got_r, list(range(a, b)) if a <= b else list(range(a, b, -1)))
                    if w:
                        return w, n_eval
                for name, got, want in [("gcd", int(el.vy_gcd(a, b, ctx)), math.gcd(a, b)), ("lcm", int(el.lowest_common_multiple(a, b, ctx)), math.lcm(a, b)), ("binomial", int(el.n_choose_r(a, b, ctx)), math.comb(a, b))]:
                    w = chk(name, (a, b), got, want)
                    if w:
                        return w, n_eval
        return None, n_eval

    def bounded(self, W, tier, seed):
        w, n = self.defs_search(tier, seed)
        return [dict(name="C17/bounded-definitions", what="each builtin on every n in range and all pairs for the dyads, against naive reference definitions; inverse pairs composed", bound="n < 600, pairs < 60 (quick); n <= 20000, pairs < 300 (thorough); plus Carmichael numbers, powers of two, a square of a prime, a semiprime, and ten arguments beyond 2**53 (inverse pairs, gcd / lcm, factorisation, exact roots)", evaluations=n, label="bounded (this is also the conformance sample of the assumed library contracts)", failures=[w] if w else [])]

    def replay(self, W, report, ob):
        return self.defs_search("quick", 0)[0]

    def stale_search(self, W, key, seed):
        return self.defs_search("quick", seed)[0]

    def run_replay(self, path):
        import json

        d = json.load(open(path, encoding="utf-8"))
        print(json.dumps(d, ensure_ascii=False, indent=1)[:1500])
        return 0


PROP = C17()
