"""C20 -- every element is typeable in one byte per character and reachable."""
from __future__ import annotations

import ast
import os
import re

from .base import Prop, Ground


def read_yaml_arities(path):
    """line reader for `- element:` / `  arity:` / `  vectorise:` (no YAML library is installed)"""
    out, cur = [], None
    for line in open(path, encoding="utf-8"):
        m = re.match(r'^- element: (.*)$', line.rstrip("\n"))
        if m:
            raw = m.group(1).strip()
            if raw[:1] in "\"'":
                q = raw[0]
                body = raw[1:raw.rindex(q)]
                if q == '"':
                    body = body.encode("utf-8").decode("unicode_escape").encode("latin-1", "backslashreplace").decode("utf-8", "replace") if "\\" in body else body
                else:
                    body = body.replace("''", "'")
            else:
                body = raw
            cur = dict(element=body, arity=None, vectorise=None)
            out.append(cur)
            continue
        m = re.match(r'^  arity: (.*)$', line.rstrip("\n"))
        if m and cur is not None and cur["arity"] is None:
            cur["arity"] = m.group(1).strip().strip("\"'")
        m = re.match(r'^  vectorise: (.*)$', line.rstrip("\n"))
        if m and cur is not None:
            cur["vectorise"] = m.group(1).strip() == "true"
    return out


def dict_display_keys(module_ast, name):
    for st in module_ast.body:
        tgt = None
        if isinstance(st, ast.AnnAssign) and isinstance(st.target, ast.Name):
            tgt, val = st.target.id, st.value
        elif isinstance(st, ast.Assign) and isinstance(st.targets[0], ast.Name):
            tgt, val = st.targets[0].id, st.value
        if tgt == name and isinstance(val, ast.Dict):
            return [k.value for k in val.keys if isinstance(k, ast.Constant)]
    return None


class C20(Prop):
    id = "C20"
    contract_modules = ["encoding", "lexer"]
    extra_keys = ["below_found", "idxs_chars_at"]
    trusted_base = ["CPython str/list semantics as encoded in DESIGN 2.2", "z3 4.x/5.1 and cvc5 1.0.3 (unsat answers)", "line reader for documents/knowledge/elements.yaml"]
    paper_steps = ["bytes->text->bytes identity = vyxal_to_utf8 post (chars_at) + utf8_to_vyxal post (chrs o idxs) + lemmas below_found, idxs_chars_at + ground fact injective(codepage); text->bytes->text by lemma chars_at_idxs"]

    def ground(self, W, tier, seed):
        import vyxal.encoding as enc
        import vyxal.elements as el
        import vyxal.parse as pa
        import vyxal.lexer as lx
        from contracts import specs

        g = []
        cp = enc.codepage
        g.append(Ground("C20/codepage-256", len(cp) == 256, f"len={len(cp)}"))
        dup = sorted({c for c in cp if cp.count(c) > 1})
        g.append(Ground("C20/codepage-injective", specs.injective(cp) and not dup, f"repeated: {dup}", witness=dict(repeated=dup) if dup else None))
        for i in range(256):
            pass
        g.append(Ground("C20/bytes-roundtrip-all-256", all(enc.utf8_to_vyxal(enc.vyxal_to_utf8([b])) == chr(b) for b in range(256)), ""))
        bad = [(a, b) for a in range(256) for b in (0, 94, 95, 96, 255) if enc.utf8_to_vyxal(enc.vyxal_to_utf8([a, b])) != chr(a) + chr(b)]
        g.append(Ground("C20/bytes-roundtrip-pairs", not bad, str(bad[:3]), witness=dict(bytes=list(bad[0])) if bad else None))
        # a program stored in the code page's bytes reaches the transpiler as exactly the text those bytes denote:
        # execute_vyxal(file, flag v) with `transpile` replaced by a recorder, on one file holding every byte pair
        import contextlib
        import io
        import os
        import tempfile
        import vyxal.main as vm

        every_pair = bytes(x for a in range(256) for b in range(256) for x in (a, b))
        seen = []
        real_transpile = vm.transpile
        vm.transpile = lambda code, *a, **k: (seen.append(code), "pass\n")[1]
        try:
            with tempfile.NamedTemporaryFile(delete=False) as f:
                f.write(every_pair)
            with contextlib.redirect_stdout(io.StringIO()):
                vm.execute_vyxal(f.name, "vO", [])
        except BaseException as e:  # noqa
            seen.append(f"raised {type(e).__name__}: {e}")
        finally:
            vm.transpile = real_transpile
            os.unlink(f.name)
        want = "".join(cp[b] for b in every_pair)
        got = seen[0] if seen else None
        i = next((j for j in range(min(len(got), len(want))) if got[j] != want[j]), min(len(got), len(want))) if isinstance(got, str) else 0
        g.append(Ground("C20/byte-file-reaches-the-transpiler-as-its-text", got == want, "" if got == want else f"first difference at character {i}: bytes {list(every_pair[max(0, i - 1):i + 3])}", witness=dict(bytes=list(every_pair[max(0, i - 1):i + 3])) if got != want else None))
        # transpiling programs never changes the element / modifier tables (a later program must see the same table)
        from vyxal.transpile import transpile

        before = (dict(el.elements), dict(el.modifiers))
        for prog in ["3 vœ", "⟨1|2⟩ vÞQ", "3 4 ₌+k", "1[ÞQ|5]", "λœ;", "3 &∆", "ƛk;", "@f|œ;", "⁽ÞQ", "1 2 ‡œÞQ", "≬kkk", "(œ)", "{ÞQ|1}", "⟨œ|k⟩", "v¨", "ß∆"]:
            try:
                transpile(prog)
            except Exception:  # noqa
                pass
        after = (dict(el.elements), dict(el.modifiers))
        changed = sorted({k for t in (0, 1) for k in set(before[t]) ^ set(after[t])} | {k for t in (0, 1) for k in before[t] if k in after[t] and before[t][k] != after[t][k]})
        for t, name in ((0, "elements"), (1, "modifiers")):  # undo, so that the rest of this run sees the real table
            getattr(el, name).clear()
            getattr(el, name).update(before[t])
        g.append(Ground("C20/tables-not-changed-by-transpiling", not changed, f"keys added / removed / changed: {changed}", witness=dict(keys=changed) if changed else None))
        mod, _ = W.module_ast("vyxal/elements.py")
        for tab in ("elements", "modifiers"):
            keys = dict_display_keys(mod, tab)
            g.append(Ground(f"C20/{tab}-display-found", keys is not None, ""))
            if keys is None:
                continue
            seen, dups = set(), []
            for k in keys:
                if k in seen:
                    dups.append(k)
                seen.add(k)
            for k in sorted(set(dups)):
                g.append(Ground(f"C20/duplicate-key[{tab}:{k}]", False, "the later entry silently replaces the earlier one", witness=dict(table=tab, key=k)))
            g.append(Ground(f"C20/{tab}-source-keys-equal-live-keys", set(keys) == set(getattr(el, tab)), ""))
        structure_chars = set(pa.OPENING_CHARACTERS) | set(pa.CLOSING_CHARACTERS) | {"|", " ", pa.BREAK_CHARACTER, pa.RECURSE_CHARACTER}
        mods = set(pa.MONADIC_MODIFIERS + pa.DYADIC_MODIFIERS + pa.TRIADIC_MODIFIERS)
        for k in el.elements:
            g.append(Ground(f"C20/key-over-codepage[{k}]", all(c in cp for c in k), "", witness=dict(key=k)))
            shadow = k in structure_chars or k in mods
            g.append(Ground(f"C20/key-not-shadowed[{k}]", not shadow, "the parser takes this character as syntax before the element table is consulted", witness=dict(key=k)))
            toks = lx.tokenise(k)
            ok = len(toks) == 1 and toks[0].name == lx.TokenType.GENERAL and toks[0].value == k
            g.append(Ground(f"C20/one-token[{k}]", ok, repr(toks), witness=dict(key=k)))
        for k in list(el.modifiers) + sorted(mods) + sorted(structure_chars - {" "}):
            toks = lx.tokenise(k)
            ok = len(toks) == 1 and toks[0].name == lx.TokenType.GENERAL and toks[0].value == k and all(c in cp for c in k)
            g.append(Ground(f"C20/syntax-one-token[{k}]", ok, repr(toks), witness=dict(key=k)))
        for m in el.modifiers:
            g.append(Ground(f"C20/modifier-known-to-parser[{m}]", m in mods, "", witness=dict(key=m)))
        for m in mods - {"⁽", "‡", "≬"}:
            g.append(Ground(f"C20/parser-modifier-has-template[{m}]", m in el.modifiers, "", witness=dict(key=m)))
        docs = read_yaml_arities(os.path.join(W.repo, "documents/knowledge/elements.yaml"))
        g.append(Ground("C20/yaml-read", len(docs) > 300, f"{len(docs)} entries"))
        for d in docs:
            k = d["element"]
            if k in el.elements and d["arity"] is not None and re.fullmatch(r"\d+", d["arity"]):
                g.append(Ground(f"C20/arity[{k}]", int(d["arity"]) == el.elements[k][1], f"documented {d['arity']}, table {el.elements[k][1]}", witness=dict(key=k, documented=int(d["arity"]), table=el.elements[k][1])))
        return g

    def run_replay(self, path):
        import json, sys

        d = json.load(open(path, encoding="utf-8"))
        print(json.dumps(d, ensure_ascii=False, indent=1)[:2000])
        W = self.load()
        gs = {g.name: g for g in self.ground(W, "quick", 0)}
        g = gs.get(d.get("obligation"))
        if g is not None:
            print("re-evaluated on the current tree:", "holds" if g.ok else "FAILS", g.detail)
            return 0 if g.ok else 1
        return 0


PROP = C20()
