"""C02 -- every well-formed program transpiles to Python that compiles."""
from __future__ import annotations

import itertools
import random

from .base import Prop, Ground
from . import parsecommon as pc

REPS = ["pass", "break", "continue", "return x"]


def compiles(text):
    import warnings

    try:
        with warnings.catch_warnings():
            warnings.simplefilter("ignore")  # "invalid escape sequence" is a warning, not a failure to compile
            compile(text, "<transpiled>", "exec")
        return None
    except SyntaxError as e:
        return f"{e.msg} (line {e.lineno})"


class C02(Prop):
    id = "C02"
    contract_modules = ["templates"]
    trusted_base = ["CPython's compile() is the oracle for 'syntactically valid Python'", "compositionality of transpile_ast (each branch emitted by a recursive call and concatenated), cross-checked exhaustively on short programs"]
    paper_steps = [
        "validity of a block in context depends only on (i) being a statement list at one indentation and (ii) containing a free break/continue (needs an enclosing loop with no def between) or return (needs an enclosing def)",
        "ground (complete over the finite tables): every element template and modifier template compiles as a block; template obligations: every structure template emitted by the real transpile compiles with each hole filled by pass, and the lowering of X / x in each (structure kind x branch) position the parser can route it to compiles in that position",
    ]

    def keys(self, W):
        return []  # the deductive content of C02 is the finite ground part below (exhaustive), see level note

    def ground(self, W, tier, seed):
        import vyxal.elements as el
        from vyxal.transpile import transpile

        g = []
        for k, (tpl, arity) in el.elements.items():
            err = compiles(tpl)
            g.append(Ground(f"C02/element-template-compiles[{k}]", err is None, err or "", witness=dict(element=k, template=tpl[:200])))
            err = compiles("def f(stack, ctx):\n    for _ in [1]:\n" + "\n".join("        " + l for l in tpl.split("\n")))
            g.append(Ground(f"C02/element-template-compiles-indented[{k}]", err is None, err or "", witness=dict(element=k)))
        for k, tpl in el.modifiers.items():
            err = compiles("function_A = function_B = function_C = None\n" + tpl)
            g.append(Ground(f"C02/modifier-template-compiles[{k}]", err is None, err or "", witness=dict(modifier=k)))
        # structure kinds x branch positions x what may stand there (an element, X, x), one and two levels deep
        slots = ["[{}]", "[1|{}]", "[1|2|{}]", "[1|2|3|{}]", "({})", "(i|{})", "{{{}|1}}", "{{1|{}}}", "{{{}}}", "λ{};", "λ2|{};", "ƛ{};", "'{};", "µ{};", "⟨{}⟩", "⟨1|{}⟩", "@f|{};", "@f:a:2|{};", "@f:*|{};",
                 "v{}", "&{}", "~{}", "ß{}", "ƒ{}", "ɖ{}", "⁽{}", "₌{}+", "₌+{}", "‡{}+", "‡+{}", "₍{}+", "≬{}++", "≬++{}", "{}"]
        fills = ["+", "X", "x", "1", "`a`", "", "+X", "X+", "[X]", "(x)", "⟨X⟩", "λX;", "ƛx;", "vX", "¨…", "n", "\n", "\n+", " ", "∆", "#c\n", "‛a\\", "\\\\", "`a\\\\`", "‛\\ 1"]
        for s in slots:
            for f in fills:
                if f in ("", " ", "#c\n", "∆", "\n", "\n+") and s[0] in "v&~ßƒɖ⁽₌‡₍≬":
                    continue  # a modifier without its operands is not a well-formed program (spaces and comments are no operands, ∆ swallows the next character)
                prog = s.format(f)
                g.append(self.compile_ground(f"C02/compiles[{prog}]", prog))
        # names, parameters and arities: what stands in a name / parameter / arity branch is program-chosen text too
        texts = ["0", "00", "01", "007", "10", "2", "٣", "a", "ab", "a1", "_x", "A_b", "*", "é", "1a"]
        for t in texts:
            for form in ("@f:{}|+;", "@f:{}:a|+;", "@f:a:{}|$;", "@{}|1;", "@{}:a|←a;", "({}|n)", "λ{}|+;", "→{} ←{}", "@f:{}|+;1 2 @f;"):
                if form.startswith("λ") and not t.isdigit():
                    continue  # a lambda's first branch is its arity only when it is a number
                if form.startswith("→") and not t.replace("_", "a").isalnum():
                    continue
                prog = form.replace("{}", t)
                g.append(self.compile_ground(f"C02/compiles[{prog}]", prog))
        # string literals whose text is a malformed Python escape sequence (the transpiler hands backslash pairs to Python as they are)
        for prog in ["`\\x`", "`a\\u12`", "`\\N`", "`\\U0001`", "‛\\x", "λ`\\x4`;", "`\\x41`", "`\\N{DIGIT ONE}`", "`\\1`"]:
            g.append(self.compile_ground(f"C02/compiles[{prog}]", prog))
        for s1, s2 in itertools.product(slots[:19], slots[:19]):
            for f in ("X", "x", "+"):
                prog = s1.format(s2.format(f))
                g.append(self.compile_ground(f"C02/compiles[{prog}]", prog))
        return g

    def cause(self, prog):
        """where in the tree a loop-bound X / x sits that Python cannot honour (recorded findings)"""
        from vyxal.lexer import tokenise
        from vyxal.parse import parse
        from vyxal import structure as S

        found = []

        def walk(node, in_cond, in_list):
            if isinstance(node, (S.BreakStatement, S.RecurseStatement)):
                if node.parent_structure in (S.ForLoop, S.WhileLoop):
                    if in_list:
                        found.append("loop-exit-inside-list-literal")
                    elif in_cond:
                        found.append("loop-exit-inside-while-condition")
                return
            if isinstance(node, S.WhileLoop):
                for x in node.condition if isinstance(node.condition, list) else []:
                    walk(x, True, False)
                for x in node.body:
                    walk(x, False, False)
                return
            if isinstance(node, S.ListLiteral):
                for item in node.items:
                    for x in item:
                        walk(x, in_cond, True)
                return
            if isinstance(node, (S.Lambda, S.FunctionDef)):
                for x in node.body:
                    walk(x, False, False)
                return
            if isinstance(node, S.LambdaOp):
                for x in node.lam.body:
                    walk(x, False, False)
                return
            if isinstance(node, S.Structure):
                for b in node.branches:
                    if isinstance(b, (list, tuple)):
                        for x in b:
                            walk(x, in_cond, in_list)
                    else:
                        walk(b, in_cond, in_list)

        try:
            for st in parse(tokenise(prog)):
                walk(st, False, False)
        except Exception:  # noqa
            return None
        return sorted(set(found)) or None

    def compile_ground(self, name, prog):
        from vyxal.transpile import transpile

        try:
            code = transpile(prog)
        except Exception as e:  # noqa
            return Ground(name, False, f"transpile raised {type(e).__name__}: {e}", witness=dict(program=prog, raised=type(e).__name__))
        err = compiles(code)
        if err is None and any(c in prog for c in "`‛«»"):
            # dictionary compression off (flag D) is the other way the same program is lowered
            try:
                err = compiles(transpile(prog, dict_compress=False))
            except Exception as e:  # noqa
                return Ground(name, False, f"transpile(dict_compress=False) raised {type(e).__name__}: {e}", witness=dict(program=prog, dict_compress=False, raised=type(e).__name__))
            if err:
                return Ground(name, False, err, witness=dict(program=prog, dict_compress=False, error=err, cause=None))
        return Ground(name, err is None, err or "", witness=dict(program=prog, error=err, cause=self.cause(prog) if err else None))

    def enumerate_short(self, maxlen):
        alphabet = ["1", "+", "X", "x", "[", "(", "{", "λ", "⟨", "|", "]", ")", ";", "v"]
        n = 0
        for L in range(1, maxlen + 1):
            for t in itertools.product(alphabet, repeat=L):
                prog = "".join(t)
                n += 1
                g = self.compile_ground("x", prog)
                if not g.ok and "IndexError" not in g.detail:  # a modifier without operand is not a well-formed program
                    yield prog, g.detail, n
        self.last_n = n

    def bounded(self, W, tier, seed):
        known = self.known_patterns()
        fails = []
        maxlen = 4 if tier != "thorough" else 5
        for prog, detail, n in self.enumerate_short(maxlen):
            if not any(k(prog, detail) for k in known):
                fails.append(dict(program=prog, error=detail))
                break
        rnd = random.Random(seed)
        extra = 0
        if not fails:
            for prog in pc.gen_programs(rnd, 400 if tier != "thorough" else 6000, depth=4):
                for t in [prog] + pc.truncations(prog):
                    extra += 1
                    g = self.compile_ground("x", t)
                    if not g.ok and "IndexError" not in g.detail and not any(k(t, g.detail) for k in known):
                        fails.append(dict(program=t, error=g.detail))
                        break
                if fails:
                    break
        return [dict(name="C02/bounded-short-programs", what="all programs of <= N tokens over a 14-symbol structural alphabet, plus generated programs of depth <= 4 with all truncations, transpiled by the real transpiler and compiled", bound=f"N = {maxlen}; 14 symbols", evaluations=getattr(self, 'last_n', 0) + extra, label="bounded", failures=fails)]

    def known_patterns(self):
        return [lambda p, d: self.cause(p) is not None, lambda p, d: "Arity must be" in d or "invalid literal" in d]

    def known_patterns_old(self):
        """failing shapes that are recorded findings (see known_findings.json): used only to let the bounded
        enumeration continue past them; each is reported through its own ground obligation"""
        import re

        return [
            lambda p, d: "outside loop" in d and ("⟨" in p or "{X|" in p or "{x|" in p or re.search(r"\{[^|}]*[Xx][^|}]*\|", p) is not None),
            lambda p, d: "Arity must be" in d or "invalid literal" in d,
        ]

    def run_replay(self, path):
        import json

        d = json.load(open(path, encoding="utf-8"))
        print(json.dumps(d, ensure_ascii=False, indent=1)[:1200])
        w = d.get("witness") or {}
        if "program" in w:
            g = self.compile_ground("x", w["program"])
            print("now:", g.ok, g.detail)
            return 0 if g.ok else 1
        return 0


PROP = C02()
