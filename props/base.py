from __future__ import annotations

import importlib


class Ground:
    """a ground (finite, exhaustively evaluated) obligation"""

    def __init__(self, name, ok, detail="", witness=None, native=None):
        # native: the witness is an input that fails when run on the real code (a program, a value, a table key);
        # False for syntactic obligations, whose witness only names the offending construct
        self.name, self.ok, self.detail, self.witness = name, ok, detail, witness
        self.native = (witness is not None) if native is None else native


class Prop:
    id = "C00"
    contract_modules = []
    level = "proof"
    extra_keys = []  # contract keys / lemma names from other properties this one also relies on
    exclude_keys = []
    trusted_base = []
    paper_steps = []

    def load(self):
        from contracts import W

        for m in self.contract_modules:
            importlib.import_module("contracts." + m)
        return W

    def keys(self, W):
        ks = [k for k, c in W.contracts.items() if (self.id in c.props or k in self.extra_keys) and not c.trusted and k not in self.exclude_keys]
        ls = [k for k, l in W.lemmas.items() if self.id in l.props or k in self.extra_keys]
        an = [k for k, (f, props) in W.analyses.items() if self.id in props or k in self.extra_keys]
        return ks + ls + an

    def wants(self, ob_name):
        return True

    def ground(self, W, tier, seed):
        return []

    def bounded(self, W, tier, seed):
        """bounded stand-ins: list of dict(name, bound, evaluations, failures=[witness...])"""
        return []

    def replay(self, W, report, ob):
        """try to turn a refuted obligation into a failing input of the real code.
        default: functional contracts are replayed generically."""
        from pyvc import concrete

        key = report["key"]
        if key not in W.contracts:
            return None
        model = ob["result"].get("model") or {}
        try:
            fail, args = concrete.replay_model(W, key, model)
        except Exception as e:  # noqa
            fail, args = None, str(e)
        if fail:
            return fail
        try:
            fail, n, why = concrete.bounded_search(W, key)
        except Exception:
            fail = None
        return fail

    def stale_search(self, W, key, seed):
        from pyvc import concrete

        try:
            fail, n, why = concrete.bounded_search(W, key, seed)
        except Exception:
            return None
        return fail
