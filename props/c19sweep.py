"""C19 bounded sweep, run as a separate process (it uses a process pool with per-program alarms):
every element of the live table, online, (a) with a tainted string in each argument position -- no user text may be
executed as Python; (b) with a printing lambda in each argument position, and every modifier around a printing
lambda -- the host's stdout must stay empty.  Prints one JSON object."""
import builtins
import contextlib
import io
import json
import multiprocessing as mp
import os
import signal
import sys

PAYLOAD = "__import__('builtins').__dict__.setdefault('TAINT_MARK', 41) + 1"
LIT = "`" + PAYLOAD + "`"
# the same text behind a numeric-looking prefix (a parser that first looks at the leading characters)
LITS = [LIT, "`1*(" + PAYLOAD + ")`", "`-2+(" + PAYLOAD + ")`"]
SKIP = {"Q", "□", "¨U"}  # exit(), input(), urlopen (online only by design): see the allow-list of the sink obligations


class _Timeout(Exception):
    pass


def work(job):
    kind, key, prog = job
    import vyxal.helpers  # noqa
    from vyxal.main import execute_vyxal

    def on_alarm(*a):
        raise _Timeout()

    signal.signal(signal.SIGALRM, on_alarm)
    signal.alarm(4)
    sys.stdin = open(os.devnull)
    out = {1: "", 2: ""}
    buf = io.StringIO()
    builtins.__dict__.pop("TAINT_MARK", None)
    try:
        with contextlib.redirect_stdout(buf):
            execute_vyxal(prog, "e", "", out, True)
    except BaseException:  # noqa
        pass
    signal.alarm(0)
    return dict(kind=kind, element=key, program=prog, tainted="TAINT_MARK" in builtins.__dict__, stdout=buf.getvalue()[:60])


def jobs():
    import vyxal.helpers  # noqa
    import vyxal.elements as el

    out = []
    for k, (tpl, ar) in sorted(el.elements.items()):
        if k in SKIP or ar not in (1, 2, 3):
            continue
        for lit in LITS:
            shapes = {1: [[lit]], 2: [[lit, "5"], ["5", lit], [lit, lit]], 3: [[lit, "5", "5"], ["5", lit, "5"], ["5", "5", lit]]}[ar]
            out += [("text", k, " ".join(sh) + " " + k) for sh in shapes]
        if ar == 1:
            out.append(("print", k, "λ3,;" + k))
        if ar == 2:
            out += [("print", k, "⟨3|1|2⟩ λ,1; " + k), ("print", k, "λ,1; ⟨3|1|2⟩ " + k), ("print", k, "4 λ,1; " + k)]
        if ar == 3:
            out += [("print", k, "⟨3|1|2⟩ λ,1; 2 " + k), ("print", k, "⟨3|1|2⟩ 2 λ,1; " + k)]
    for m in sorted(el.modifiers):
        out += [("print", "modifier " + m, "⟨3|1|2⟩ " + m + "λ,1;"), ("print", "modifier " + m, "⟨3|1|2⟩ " + m + ",,")]
    return out


def main():
    js = jobs()
    res = []
    stuck = False
    with mp.get_context("fork").Pool(min(14, os.cpu_count() or 4), maxtasksperchild=25) as pool:
        it = pool.imap_unordered(work, js)
        while True:
            try:
                res.append(it.next(timeout=30))
            except StopIteration:
                break
            except mp.TimeoutError:
                stuck = True
                break
    bad = sorted([r for r in res if (r["kind"] == "text" and r["tainted"]) or (r["kind"] == "print" and r["stdout"])], key=lambda r: (r["element"], r["program"]))
    print(json.dumps(dict(jobs=len(js), done=len(res), stuck=stuck, bad=bad), ensure_ascii=False))


if __name__ == "__main__":
    main()
