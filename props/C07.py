"""C07 -- rational arithmetic is exact and stays inside the number types."""
from __future__ import annotations

import itertools
import math
import random
from fractions import Fraction as F

from .base import Prop, Ground


class C07(Prop):
    id = "C07"
    contract_modules = ["arith"]
    trusted_base = ["sympy Integer / Rational arithmetic (+ - * / %), sympy.floor, sympy.sympify and vyxalify on exact numbers are exact (conformance-sampled, not proved)", "Python int arithmetic is exact", "z3 5.1 (linear / nonlinear real arithmetic, unsat answers)"]
    paper_steps = ["for each of the six functions and each pair of representation kinds (Python int, sympy exact number) the overload table is proved to dispatch to the number branch and the expression evaluated there is proved to denote the field operation - Python's int / int (float) and sympy's // (not exact) have no encoding, so code using them cannot discharge the clause; field identities such as a/b*b == a are corollaries of the per-operation postconditions"]

    def reps(self, fr):
        import sympy

        out = []
        if fr.denominator == 1:
            out += [int(fr), sympy.Integer(int(fr))]
        out.append(sympy.Rational(fr.numerator, fr.denominator))
        return out

    def tofr(self, v):
        import sympy

        if isinstance(v, bool):
            return None
        if isinstance(v, int):
            return F(v)
        if isinstance(v, (sympy.Rational, sympy.Integer)):
            return F(int(v.p), int(v.q))
        return None

    def arith_search(self, tier, seed):
        import vyxal.helpers  # noqa
        import vyxal.elements as el
        from vyxal.context import Context

        ctx = Context()
        rnd = random.Random(seed)
        ops = {"add": lambda a, b: a + b, "subtract": lambda a, b: a - b, "multiply": lambda a, b: a * b, "divide": lambda a, b: (a / b if b else F(0)),
               "modulo": lambda a, b: (a - b * math.floor(a / b)) if b else None, "integer_divide": lambda a, b: F(math.floor(a / b)) if b else F(0)}
        small = sorted({F(p, q) for p in range(-12, 13) for q in range(1, 7)}) if tier == "thorough" else sorted({F(p, q) for p in range(-6, 7) for q in (1, 2, 3)})
        pairs = list(itertools.product(small, repeat=2))
        pairs += [(F(rnd.randrange(-10**6, 10**6), rnd.randrange(1, 10**4)), F(rnd.randrange(-10**6, 10**6), rnd.randrange(1, 10**4))) for _ in range(300 if tier != "thorough" else 5000)]
        pairs += [(F(1000003), F(9973)), (F(10**20 + 1), F(3)), (F(-12), F(1, 6)), (F(5, 2), F(-1)), (F(1), F(1, 10**12)), (F(7), F(1, 10**12)), (F(-7), F(2))]
        n = 0
        for name, ref in ops.items():
            f = getattr(el, name)
            for a, b in pairs:
                want = ref(a, b)
                if want is None:
                    continue
                for x in self.reps(a):
                    for y in self.reps(b):
                        n += 1
                        try:
                            got = f(x, y, ctx)
                        except Exception as e:  # noqa
                            got = f"raised {type(e).__name__}: {e}"
                        g = self.tofr(got) if not isinstance(got, str) else None
                        if g != want or isinstance(got, float):
                            return dict(operation=name, lhs=repr(x), rhs=repr(y), result=repr(got), type=type(got).__name__, expected=str(want)), n
        # chained identities on expression trees
        for _ in range(200 if tier != "thorough" else 3000):
            a, b, c = [F(rnd.randrange(-50, 50), rnd.randrange(1, 12)) for _ in range(3)]
            if b == 0:
                continue
            n += 1
            x, y, z = [self.reps(v)[-1] for v in (a, b, c)]
            got = el.multiply(el.divide(el.add(x, z, ctx), y, ctx), y, ctx)
            if self.tofr(got) != a + c:
                return dict(operation="(a+c)/b*b", a=str(a), b=str(b), c=str(c), result=repr(got), expected=str(a + c)), n
        return None, n

    def bounded(self, W, tier, seed):
        w, n = self.arith_search(tier, seed)
        return [dict(name="C07/bounded-exact-arithmetic", what="the six functions on pairs of rationals in every representation (Python int, sympy Integer, sympy Rational) compared exactly with fractions.Fraction, type checked; chained identity (a+c)/b*b == a+c", bound="quick: |p| <= 6, q <= 3 exhaustive + 300 sampled pairs to 10^6/10^4; thorough: |p| <= 12, q <= 6 exhaustive + 5000 sampled", evaluations=n, label="bounded (also the conformance sample for the assumed sympy contracts)", failures=[w] if w else [])]

    def replay(self, W, report, ob):
        return self.arith_search("quick", 0)[0]

    def stale_search(self, W, key, seed):
        return self.arith_search("quick", seed)[0]

    def run_replay(self, path):
        import json

        d = json.load(open(path, encoding="utf-8"))
        print(json.dumps(d, ensure_ascii=False, indent=1)[:1500])
        return 0


PROP = C07()
