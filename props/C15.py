"""C15 -- compression and base-conversion codecs round-trip."""
from __future__ import annotations

import itertools
import random

from .base import Prop, Ground
from . import runcommon as rc


class C15(Prop):
    id = "C15"
    contract_modules = ["codecs", "lexer"]
    extra_keys = ["vyxal/lexer.py::tokenise"]
    trusted_base = ["CPython semantics of the subset (DESIGN 2.2)", "z3 5.1 / cvc5 1.0.3 (unsat answers)", "math.log / sympy.nsimplify in elements.to_base (float digit count) are outside the encoding"]
    paper_steps = [
        "helpers codecs: to_base_digits == digitsM, from_base_digits == horner, alphabet versions == chars_at / idxs (proved); lemmas horner_digitsM, digits_below_base, below_found, idxs_chars_at, alphabet_roundtrip (proved by induction) give decode(encode(n)) == n for every injective alphabet; injectivity of the live alphabets and absence of their delimiter are ground obligations",
        "the literal text »…» / «…« evaluates back through tokenise == lex (proved) and compressed_payload_is_data (proved): the payload is exactly the text between the delimiters because the alphabet excludes the delimiter",
        "elements.to_base (the encoder the compression elements call) computes its digit count with float math.log: outside the encoding; covered by the bounded stand-in only",
    ]

    def ground(self, W, tier, seed):
        import vyxal.encoding as enc
        import vyxal.dictionary as dic
        from contracts import specs

        g = []
        for name, a, delim in (("codepage_number_compress", enc.codepage_number_compress, "»"), ("codepage_string_compress", enc.codepage_string_compress, "«"), ("base_27_alphabet", enc.base_27_alphabet, None), ("compression", enc.compression, None)):
            g.append(Ground(f"C15/alphabet-injective[{name}]", specs.injective(a) and len(set(a)) == len(a), f"len {len(a)}, distinct {len(set(a))}"))
            if delim:
                g.append(Ground(f"C15/alphabet-excludes-delimiter[{name}]", delim not in a and len(a) == 255, ""))
        import string

        g.append(Ground("C15/compression-alphabet-disjoint-from-printable", not (set(enc.compression) & set(string.printable)), ""))
        g.append(Ground("C15/dictionary-index-fits-two-digits", len(dic.contents) <= len(enc.compression) ** 2, f"{len(dic.contents)} words"))
        return g

    # ---- bounded stand-in: the element-level encoders on the real code
    def codec_search(self, tier, seed):
        import vyxal.elements as el
        from vyxal.context import Context
        from vyxal.helpers import uncompress_num, uncompress_str
        from vyxal.lexer import tokenise, TokenType

        ctx = Context()
        rnd = random.Random(seed)
        n_eval = 0
        top = 400 if tier != "thorough" else 3000  # ~0.14 s per number (sympy logarithm in to_base)
        nums = list(range(0, top)) + [rnd.randrange(10**k) for k in range(5, 120, 9 if tier != "thorough" else 1)]
        for b in (list(range(2, 13)) + [16, 27, 100, 255, 256, 300] if tier != "thorough" else list(range(2, 301))):
            for k in range(1, 10 if tier != "thorough" else 130):
                nums_b = [b**k - 1, b**k, b**k + 1]
                for n in nums_b:
                    n_eval += 1
                    try:
                        ds = el.to_base(n, b, ctx)
                        back = el.from_base(ds, b, ctx)
                        ok = back == n and all(0 <= d < b for d in ds)
                    except Exception as e:  # noqa
                        ok, ds = False, f"raised {type(e).__name__}: {e}"
                    if not ok:
                        return dict(kind="base-conversion", n=str(n), base=b, digits=repr(ds)[:200]), n_eval
        for n in nums:
            n_eval += 1
            for b in (2, 10, 27):
                ds = el.to_base(n, b, ctx)
                if el.from_base(ds, b, ctx) != n or not all(0 <= d < b for d in ds):
                    return dict(kind="base-conversion", n=str(n), base=b, digits=repr(ds)[:200]), n_eval
            if n >= 1:
                text = el.base_255_number_compress(n, ctx)
                toks = tokenise(text)
                if len(toks) != 1 or toks[0].name != TokenType.COMPRESSED_NUMBER or uncompress_num(toks[0].value) != n:
                    return dict(kind="number-compression", n=str(n), literal=text, tokens=repr(toks)), n_eval
                if n < 60 or n % 97 == 0:
                    r = rc.run_program(text, ())
                    if r["error"] is not None or r["stack"] != [n]:
                        return dict(kind="number-compression-run", n=str(n), literal=text, stack=repr(r["stack"]), error=r["error"]), n_eval
        alpha = "abcdefghijklmnopqrstuvwxyz "
        strings = [s for L in (1, 2) for s in map("".join, itertools.product(alpha, repeat=L)) if not s.startswith(" ")]
        strings += ["".join(rnd.choice(alpha) for _ in range(rnd.randrange(3, 60))).lstrip() or "a" for _ in range(100 if tier != "thorough" else 5000)]
        for s in strings:
            n_eval += 1
            text = el.base_255_string_compress(s, ctx)
            toks = tokenise(text)
            if len(toks) != 1 or toks[0].name != TokenType.COMPRESSED_STRING or uncompress_str(toks[0].value) != s:
                return dict(kind="string-compression", string=s, literal=text, tokens=repr(toks)), n_eval
        printable = [chr(c) for c in range(32, 127) if chr(c) not in "\\`"]
        words = ["the", "hello", "world", "Hello, World!", "abc", "golf", "code golf is fun", "a b", "zzzz", "The quick brown fox"]
        words += ["".join(rnd.choice(printable) for _ in range(rnd.randrange(1, 25))) for _ in range(60 if tier != "thorough" else 1500)]
        for s in words:
            n_eval += 1
            text = el.optimal_compress(s, ctx)
            r = rc.run_program(text, ())
            if r["error"] is not None or r["stack"] != [s] or len(text) > len(s) + 2:
                return dict(kind="dictionary-compression", string=s, literal=text, stack=repr(r["stack"]), error=r["error"]), n_eval
        return None, n_eval

    def bounded(self, W, tier, seed):
        w, n = self.codec_search(tier, seed)
        return [dict(name="C15/bounded-element-codecs", what="elements.to_base / from_base on b^k-1, b^k, b^k+1 and a dense range; number, string and dictionary compression elements round-tripped through the real lexer / interpreter", bound="quick: bases 2..12,16,27,100,255,256,300, k <= 9, n < 400; thorough: bases 2..300, k <= 129, n < 3000; strings of length <= 2 over [a-z ] exhaustively + random", evaluations=n, label="bounded", failures=[w] if w else [])]

    def replay(self, W, report, ob):
        if report["key"].endswith("::tokenise"):
            from . import parsecommon as pc

            return pc.search_lexer()
        w = Prop.replay(self, W, report, ob)
        if w:
            return w
        return self.codec_search("quick", 0)[0]

    def stale_search(self, W, key, seed):
        w = Prop.stale_search(self, W, key, seed)
        return w or self.codec_search("quick", seed)[0]

    def run_replay(self, path):
        import json

        d = json.load(open(path, encoding="utf-8"))
        print(json.dumps(d, ensure_ascii=False, indent=1)[:1500])
        return 0


PROP = C15()
