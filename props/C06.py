"""C06 -- quoting a string and evaluating the quoted text returns the same string."""
from __future__ import annotations

import itertools
import random

from .base import Prop, Ground
from . import runcommon as rc


class C06(Prop):
    id = "C06"
    contract_modules = ["lexer", "transpiler", "parser"]
    extra_keys = ["vyxal/lexer.py::tokenise", "vyxal/transpile.py::transpile_token", "parse#dispatch"]
    trusted_base = ["CPython reads the double-quoted literal body q as pyval(q) (conformance-checked exhaustively on short bodies)", "z3 5.1 / cvc5 1.0.3 (unsat answers)", "textwrap.indent only adds leading spaces", "the dictionary tables themselves are never consulted on the proved paths (no dictionary digit in the text)"]
    paper_steps = [
        "chain, each link proved: quotify(s) == '`' + esc(s) + '`' (contract + lemma replace_chain_is_esc); esc(s) is a string body (escaped_text_is_a_string_body), so lex('`'+esc(s)+'`'+rest) starts with STRING(esc(s)) (tokenise == lex, string_payload_is_data); transpile_token(STRING(esc(s)), dict_compress=False) == stack.append(\"pyq(esc(s))\") (contract); pyval(pyq(esc(s))) == s (quoted_text_evaluates_back)",
        "with dictionary compression on: helpers.uncompress_dict is proved to return its argument for every string body without dictionary digits (loop invariant), and escaping_adds_no_dictionary_digits shows esc(s) has none when s has none (printable ASCII has none: ground fact compression ∩ printable = ∅, C15)",
    ]

    def wants(self, name):
        return not name.startswith("transpile_token/post#") or "string-literal" in name

    def ground(self, W, tier, seed):
        """conformance of the assumed link: CPython's reading of the literal body == pyval, exhaustively on short bodies"""
        from contracts import transpiler as T

        alpha = ["\\", '"', "n", "a", "`", "'", "\n", "x", "0", "λ"]
        bad = None
        n = 0
        for L in range(0, 5):
            for t in itertools.product(alpha, repeat=L):
                q = "".join(t)
                if not T.lit_ok(q) or q.endswith("\\") and not q.endswith("\\\\"):
                    continue
                if "\\\n" in q or "\\a" in q or "\\x" in q or "\\0" in q or "\\'" in q or "\\λ" in q or "\\`" in q:
                    continue  # escapes the transpiler never emits for quoted text
                n += 1
                try:
                    val = eval('"' + q + '"')
                except SyntaxError:
                    continue
                if val != T.pyval(q):
                    bad = bad or dict(body=q, cpython=val, pyval=T.pyval(q))
        return [Ground("C06/cpython-literal-reading-is-pyval", bad is None and n > 100, f"{n} bodies" if bad is None else str(bad), witness=bad)]

    def roundtrip_search(self, tier, seed):
        import vyxal.elements as el
        import vyxal.encoding as enc
        from vyxal.context import Context
        from vyxal.transpile import transpile

        ctx = Context()
        rnd = random.Random(seed)
        esc_alpha = ["\\", "`", '"', "'", "\n", "a", "n", "x", "0", "λ"]
        maxlen = 3 if tier != "thorough" else 4
        strings = ["".join(t) for L in range(0, maxlen + 1) for t in itertools.product(esc_alpha, repeat=L)]
        strings += list(enc.codepage)  # every one-character string (a parser that looks at a literal's value would drop some)
        strings += ["".join(t) for t in itertools.product(" |])};⟩[({", repeat=2)]
        strings += ["".join(rnd.choice(enc.codepage) for _ in range(rnd.randrange(1, 40))) for _ in range(300 if tier != "thorough" else 6000)]
        n = 0
        # history in one process: the same characters lowered first as a compressed string / number / character
        # literal must not change what the quoted string evaluates to afterwards (and the other way round)
        for s in ["hello", "ab", "a", "zz top", "the quick", "x"]:
            for other in ("«" + s + "«", "»" + s + "»", "‛" + s[:2].ljust(2), "\\" + s[0]):
                for dc in (True, False):
                    n += 1
                    try:
                        transpile(other, dict_compress=dc)
                        text = el.quotify(s, ctx)
                        ns, c2, stack = rc.fresh_ns(())
                        err, out = rc.run_code(transpile(text, dict_compress=dc), ns, 3)
                    except Exception as e:  # noqa
                        return dict(string=s, lowered_before=other, dict_compress=dc, error=f"{type(e).__name__}: {e}"), n
                    if err is not None or ns["stack"] != [s]:
                        return dict(string=s, lowered_before=other, dict_compress=dc, quoted=text, stack=repr(ns["stack"]), error=err), n
        # through the interpreter's entry point with the D flag (compression off is a flag of the run, not only an
        # argument of transpile)
        import contextlib
        import io
        from vyxal.main import execute_vyxal

        for s in ["λλ", "ƛƛ", "λ", "ab", "Ẏė", "¬ø"] + ["".join(rnd.choice(enc.codepage.replace("\n", "")) for _ in range(rnd.randrange(1, 20))) for _ in range(20)]:
            n += 1
            text = el.quotify(s, ctx)
            buf = io.StringIO()
            try:
                with contextlib.redirect_stdout(buf):
                    execute_vyxal(text, "eD", [])
            except BaseException as e:  # noqa
                return dict(string=s, quoted=text, flags="eD", error=f"{type(e).__name__}: {e}"), n
            if buf.getvalue() != s + "\n":
                return dict(string=s, quoted=text, flags="eD", printed=buf.getvalue()[:80], expected=s + "\n"), n
        # the quoting element under every context the output flags can produce (P turns vyxal_lists off), and the
        # quoted text evaluated from inside a running program (q then Ė) with compression off
        for s in ["abc", "", "a`b", "a\\b", 'say "hi"', "λλ", "line\nbreak"]:
            for vl in (True, False):
                n += 1
                c3 = Context()
                c3.vyxal_lists = vl
                text = el.quotify(s, c3)
                ns, c2, stack = rc.fresh_ns(())
                try:
                    err, out = rc.run_code(transpile(text, dict_compress=False), ns, 3)
                except Exception as e:  # noqa
                    err = f"{type(e).__name__}: {e}"
                if err is not None or ns["stack"] != [s]:
                    return dict(string=s, quoted=text, vyxal_lists=vl, dict_compress=False, stack=repr(ns["stack"]), error=err), n
            if "`" in s or "\\" in s or '"' in s or "\n" in s:
                continue
            n += 1
            buf = io.StringIO()
            prog = "`" + s + "`qĖ"
            try:
                with contextlib.redirect_stdout(buf):
                    execute_vyxal(prog, "eD", [])
            except BaseException as e:  # noqa
                return dict(string=s, program=prog, flags="eD", error=f"{type(e).__name__}: {e}"), n
            if buf.getvalue() != s + "\n":
                return dict(string=s, program=prog, flags="eD", printed=buf.getvalue()[:80], expected=s + "\n"), n
        for s in strings:
            text = el.quotify(s, ctx)
            for dc in (True, False, True):
                if dc and not all(32 <= ord(c) < 127 or c == "\n" for c in s):
                    try:  # history: the same text transpiled with compression on must not influence a later run with it off
                        transpile(text, dict_compress=True)
                    except Exception:  # noqa
                        pass
                    continue
                n += 1
                ns, c2, stack = rc.fresh_ns(())
                try:
                    code = transpile(text, dict_compress=dc)
                except Exception as e:  # noqa
                    return dict(string=s, quoted=text, dict_compress=dc, error=f"transpile: {e}"), n
                err, out = rc.run_code(code, ns, 3)
                if err is not None or ns["stack"] != [s]:
                    return dict(string=s, quoted=text, dict_compress=dc, stack=repr(ns["stack"]), error=err), n
        return None, n

    def bounded(self, W, tier, seed):
        w, n = self.roundtrip_search(tier, seed)
        return [dict(name="C06/bounded-quote-roundtrip", what="q applied to a string, the quoted text run as a program (dictionary compression off for all strings, on for printable ASCII); the pushed value compared with the original; also after other literal kinds with the same characters were lowered earlier in the same process", bound="all strings of length <= 3 (quick) / 4 (thorough) over the escape-relevant alphabet {\\ ` \" ' newline a n x 0 λ}; random code-page strings to length 40", evaluations=n, label="bounded", failures=[w] if w else [])]

    def replay(self, W, report, ob):
        if report["key"].endswith("::tokenise"):
            from . import parsecommon as pc

            w = pc.search_lexer()
            if w:
                return w
        return self.roundtrip_search("quick", 0)[0]

    def stale_search(self, W, key, seed):
        return self.roundtrip_search("quick", seed)[0]

    def run_replay(self, path):
        import json

        d = json.load(open(path, encoding="utf-8"))
        print(json.dumps(d, ensure_ascii=False, indent=1)[:1500])
        return 0


PROP = C06()
