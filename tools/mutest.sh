#!/bin/bash
# tools/mutest.sh <patch.diff> <Cxx>...   apply a seeded change to /repo, run the checks, undo it
patch="$1"; shift
cd /verif
rm -rf /tmp/evidence.keep; cp -r evidence /tmp/evidence.keep   # checks rewrite evidence/: keep the clean-tree files
git -C /repo reset -q --hard HEAD
if ! git -C /repo apply --3way "$patch" >/dev/null 2>&1; then echo "PATCH DOES NOT APPLY: $patch"; git -C /repo reset -q --hard HEAD; exit 9; fi
git -C /repo reset -q    # keep the change in the working tree only
for p in "$@"; do
  timeout 2400 ./check "$p" > /tmp/mutest.$p.out 2>&1; rc=$?
  echo "[$p] rc=$rc $(grep -c '^VIOLATION' /tmp/mutest.$p.out) violation(s): $(grep '^VIOLATION' /tmp/mutest.$p.out | head -2 | cut -c1-150 | tr '\n' ' ')"
  grep -E "^(CONTRACT-STALE|UNDECIDED|CHECKER-ERROR)" /tmp/mutest.$p.out | head -3 | cut -c1-200
done
git -C /repo checkout -- . ; git -C /repo reset -q --hard HEAD
rm -rf evidence; cp -r /tmp/evidence.keep evidence
