"""tools/matrix_table.py <tsv>... : markdown table of the seeded-change matrix for DESIGN 9.5"""
import json, re, sys, os

rows = {}
for f in sys.argv[1:]:
    for line in open(f, encoding="utf-8"):
        sid, prop, rc, nv, names = (line.rstrip("\n").split("\t") + [""] * 5)[:5]
        rows.setdefault(sid, []).append((prop, rc, nv, names))


def short(n):
    n = n.replace(".json", "").replace(" no-failing-input-found", "")
    n = re.sub(r"^C\d\d_", "", n)
    return n[:70]


print("| seed | change (summary of the author's description) | caught by | failing obligations / stand-ins (first few) |")
print("|---|---|---|---|")
for sid in sorted(rows, key=lambda s: (s[:3], int(s.split("-m")[1]))):
    meta = json.load(open(os.path.join("/verif/seeded", sid, "meta.json"), encoding="utf-8"))
    summ = (meta.get("summary") or "").replace("|", "\\|").replace("\n", " ")
    summ = summ[:150] + ("…" if len(summ) > 150 else "")
    caught, names = [], []
    for prop, rc, nv, nm in rows[sid]:
        if rc == "1":
            caught.append(prop)
            items = [short(x) for x in nm.split(";") if x]
            ded = [x for x in items if not x.startswith("bounded")]
            bnd = [x for x in items if x.startswith("bounded")]
            names.append(prop + ": " + ", ".join((ded[:3] + bnd[:1]) or items[:3]).replace("|", "\\|"))
        elif rc == "2":
            names.append(prop + ": undecided (contract stale, no failing input found)")
        elif rc == "0":
            names.append(prop + ": not caught")
        else:
            names.append(f"{prop}: rc={rc}")
    print(f"| {sid} | {summ} | {', '.join(caught) or '—'} | {'; '.join(names)} |")
