#!/bin/bash
# tools/seeded_matrix.sh [ids...] : run, for every seeded change under /verif/seeded, the check of the property it
# breaks against a scratch worktree of /repo with the change applied (never /repo itself); one line per change.
HERE=${VERIF_HOME:-/verif}   # a snapshot of /verif (git worktree + .venv symlink) can be used so that edits of /verif do not disturb a running matrix
cd $HERE
SCR=${VERIF_SCRATCH:-/var/tmp}/seedrun.$$
ids=${@:-$(ls seeded | grep -E '^C[0-9]+-m[0-9]+$')}
git -C /repo worktree remove --force $SCR >/dev/null 2>&1
git -C /repo worktree add --detach $SCR HEAD >/dev/null 2>&1 || { echo "cannot create scratch worktree"; exit 3; }
mkdir -p $SCR.out
for id in $ids; do
  prop=${id%%-*}
  git -C $SCR checkout -q -- . ; git -C $SCR clean -fdq
  if ! git -C $SCR apply --3way $HERE/seeded/$id/patch.diff >/dev/null 2>&1; then echo "$id: patch does not apply"; continue; fi
  git -C $SCR reset -q
  extra=$(python3 -c "import json; print(' '.join(json.load(open('seeded/$id/meta.json')).get('also_check', [])))" 2>/dev/null)
  res=""
  for p in $prop $extra; do
    VERIF_REPO=$SCR VERIF_EVIDENCE_DIR=$SCR.out/evidence VERIF_REPLAY_DIR=$SCR.out/replays timeout 2400 ./check $p > $SCR.out/$id.$p.log 2>&1; rc=$?
    nv=$(grep -c '^VIOLATION' $SCR.out/$id.$p.log)
    first=$(grep '^VIOLATION' $SCR.out/$id.$p.log | head -1 | sed 's/.*replay=[^ ]*\///' | cut -c1-90)
    res="$res [$p rc=$rc violations=$nv first=$first]"
    names=$(grep '^VIOLATION' $SCR.out/$id.$p.log | sed 's/.*replay=[^ ]*\///; s/-[0-9a-f]\{8\}\.json//' | sort -u | head -8 | tr '\n' ';')
    printf '%s\t%s\t%s\t%s\t%s\n' "$id" "$p" "$rc" "$nv" "$names" >> $SCR.out/matrix.tsv
    [ -n "$VERIF_MATRIX_OUT" ] && printf '%s\t%s\t%s\t%s\t%s\n' "$id" "$p" "$rc" "$nv" "$names" >> "$VERIF_MATRIX_OUT.partial"
  done
  echo "$id:$res"
done
[ -f $SCR.out/matrix.tsv ] && cp $SCR.out/matrix.tsv ${VERIF_MATRIX_OUT:-$HERE/build/matrix.tsv}
git -C /repo worktree remove --force $SCR >/dev/null 2>&1; rm -rf $SCR.out
