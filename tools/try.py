"""developer tool: verify the given contract keys / lemmas and print every failing obligation"""
import sys, time, importlib
sys.path.insert(0, "/verif")
from contracts import W
for m in sys.argv[1].split(","):
    importlib.import_module("contracts." + m)
from pyvc.runner import generate_all, discharge
sel = [a for a in sys.argv[2:] if not a.startswith("-")]
keys = [k for k in list(W.contracts) + list(W.lemmas) + list(W.analyses) if (not sel or any(s in k for s in sel)) and not (k in W.contracts and W.contracts[k].trusted)]
t0 = time.time()
reps = discharge(generate_all(W, keys))
for r in reps:
    bad = [o for o in r["obligations"] if not o["ok"]]
    print(f"== {r['key']}: paths={r['paths']} obligations={len(r['obligations'])} failed={len(bad)} gen={r['wall']:.2f}s error={r['error']}", flush=True)
    for o in r["obligations"]:
        if not o["ok"] or "-v" in sys.argv:
            x = o["result"]
            print(("  ok  " if o["ok"] else "  FAIL"), o["name"], x["result"], x["backend"], f"{x['time']:.2f}s", x["reason"], (x["model"] if not o["ok"] else ""), flush=True)
print(f"total {time.time()-t0:.1f}s")
