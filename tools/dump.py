"""developer tool: dump assumptions/goal of the obligations whose name contains argv[3]"""
import sys, importlib
sys.path.insert(0, "/verif")
from contracts import W
for m in sys.argv[1].split(","):
    importlib.import_module("contracts." + m)
from pyvc.verify import verify_function
key = [k for k in W.contracts if sys.argv[2] in k][0]
rep = verify_function(W, key)
print(rep.error)
for o in rep.obligations:
    if sys.argv[3] in o.name:
        print("=====", o.name)
        for a in o.assumptions:
            t = str(a).replace("\n", " ")
            print("A:", t[:600])
        print("G:", str(o.goal).replace("\n"," ")[:1500])
