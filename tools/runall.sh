#!/bin/bash
# run every claimed check on the current tree (regenerates evidence/), print one line each
cd /verif
for p in $(.venv/bin/python -c "import json; print(' '.join(c['property_id'] for c in json.load(open('MANIFEST.json'))['checks']))"); do
  ./check $p ${1:+--tier $1} > /tmp/runall.$p.out 2>/dev/null; rc=$?
  echo "$p rc=$rc $(tail -1 /tmp/runall.$p.out)"
done
