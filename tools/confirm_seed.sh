#!/bin/bash
# tools/confirm_seed.sh Cxx/mN : confirm a sub-agent's seeded change in a scratch worktree of /repo HEAD,
# then store it under /verif/seeded/Cxx-mN/ (patch.diff, demo.py, meta.json with what was run)
id="$1"; src=${SEED_SRC:-/tmp/mut/out}/$id; name=${SEED_NAME:-$(echo $id | tr '/' '-')}
wt=/tmp/seedwt-$name
git -C /repo worktree remove --force $wt >/dev/null 2>&1
git -C /repo worktree add --detach $wt HEAD >/dev/null 2>&1 || { echo "$id: worktree failed"; exit 1; }
cd $wt
patch=$src/patch.diff; ported=""
if [ -f /tmp/ported/$name.diff ]; then patch=/tmp/ported/$name.diff; ported="the sub-agent's patch was written against the pinned commit and no longer applied after the fix: commits; it was ported by hand to HEAD (same edit, same mechanism)"; fi
if ! git apply --3way $patch >/dev/null 2>&1; then echo "$id: PATCH DOES NOT APPLY to HEAD"; cd /; git -C /repo worktree remove --force $wt; exit 1; fi
git reset -q
tests=$(/venv/bin/python -m pytest -q -p no:cacheprovider --timeout=900 2>&1 | grep -E "passed|failed" | tail -1)
timeout 600 /venv/bin/python $src/demo.py >/tmp/seed-$name.mut.out 2>&1 </dev/null; rc_mut=$?
git diff > /tmp/seed-$name.patch
git checkout -q -- . ; git reset -q --hard HEAD
timeout 600 /venv/bin/python $src/demo.py >/tmp/seed-$name.clean.out 2>&1 </dev/null; rc_clean=$?
cd /; git -C /repo worktree remove --force $wt
echo "$id: tests=[$tests] demo_with_change_rc=$rc_mut demo_without_rc=$rc_clean"
if echo "$tests" | grep -q "392 passed" && [ $rc_mut -ne 0 ] && [ $rc_clean -eq 0 ]; then
  mkdir -p /verif/seeded/$name
  cp /tmp/seed-$name.patch /verif/seeded/$name/patch.diff
  cp $src/demo.py /verif/seeded/$name/demo.py
  python3 - "$src/meta.json" "/verif/seeded/$name/meta.json" "$tests" "$rc_mut" "$rc_clean" "$ported" <<'PY'
import json, sys
m = json.load(open(sys.argv[1], encoding="utf-8"))
out = dict(property=m.get("property"), summary=m.get("summary"), needs_to_manifest=m.get("needs_to_manifest"), files=m.get("files"),
           confirmed=dict(base="HEAD of /repo (pinned commit + fix: commits) in a scratch worktree", test_suite=sys.argv[3], demo_with_change_exit=int(sys.argv[4]), demo_without_change_exit=int(sys.argv[5]),
                          commands=["git apply --3way patch.diff", "/venv/bin/python -m pytest -q -p no:cacheprovider --timeout=900", "/venv/bin/python demo.py (changed tree)", "git checkout -- . ; /venv/bin/python demo.py (unchanged tree)"]),
           author_ran=m.get("ran"), ported=sys.argv[6] or None)
json.dump(out, open(sys.argv[2], "w", encoding="utf-8"), indent=1, ensure_ascii=False)
PY
  echo "$id: KEPT"
else
  echo "$id: NOT KEPT"
fi
