"""tools/matrix_stats.py <tsv>... : how the seeded changes were caught"""
import sys, re, collections
rows = collections.defaultdict(list)
for f in sys.argv[1:]:
    for line in open(f, encoding="utf-8"):
        sid, prop, rc, nv, names = (line.rstrip("\n").split("\t") + [""] * 5)[:5]
        rows[sid].append((prop, rc, [re.sub(r"^C\d\d_", "", x) for x in names.split(";") if x]))
cat = collections.Counter()
detail = collections.defaultdict(list)
for sid, rs in sorted(rows.items()):
    own = sid[:3]
    ded = any(rc == "1" and any(not n.startswith("bounded") for n in ns) for p, rc, ns in rs)
    bnd = any(rc == "1" and any(n.startswith("bounded") for n in ns) for p, rc, ns in rs)
    own_caught = any(rc == "1" for p, rc, ns in rs if p == own)
    other = any(rc == "1" for p, rc, ns in rs if p != own)
    if not (ded or bnd):
        k = "not caught" if all(rc == "0" for p, rc, ns in rs) else "undecided"
    elif ded and bnd:
        k = "a discharged obligation fails and the bounded stand-in finds a failing input"
    elif ded:
        k = "a discharged obligation fails (no bounded witness)"
    else:
        k = "only the bounded stand-in"
    cat[k] += 1
    detail[k].append(sid)
    if not own_caught and other:
        cat["(caught by the check of another property only)"] += 1
        detail["(caught by the check of another property only)"].append(sid)
print(len(rows), "seeded changes")
for k, v in cat.most_common():
    print(f"{v:4d}  {k}: {' '.join(detail[k]) if v <= 30 else ''}")
