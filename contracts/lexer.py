"""vyxal/lexer.py::tokenise against the lexer specification (C03, C04, C05, C06, C18, C20)."""
from pyvc.sym import INT, BOOL, STR, CHAR, VAL, SEQ
from . import W
from .lexspec import TOKEN
from . import lexspec  # noqa

DG = "variables_as_digraphs"

W.contract(
    "vyxal/lexer.py::tokenise",
    params=dict(source_str=STR, variables_as_digraphs=BOOL),
    result=SEQ(TOKEN),
    ensures=[f"result == lex(source_str, {DG})"],
    witness=dict(source_str="`a\\`b` 1.5 →x", variables_as_digraphs=False),
    fuel=0,
    semantic_prune=True,
    loops={
        0: dict(
            types={"tokens": SEQ(TOKEN)},
            inv=[f"lex(source_str, {DG}) == tokens + lex(source, {DG})"],
            hints_end=[f"unfold(lex(source0, {DG}))"],
            hints_exit=[f"unfold(lex(source, {DG}))"],
            pre=["source", "tokens"],
            lets={"h": "source0[0]", "r": "source0[1:]"},
            step=[f"tokens == tokens0 + lex_tokens(h, r, {DG})", f"source == lex_rest(h, r, {DG})"],
        ),
        1: dict(  # body of `...` / »...» / «...«
            entry={"r1": "source"},
            inv=[
                "len(source) <= len(r1)",
                "r1[len(r1) - len(source):] == source",
                "implies(head == '`', str_val(r1) == contextual_token_value + str_val(source))",
                "implies(head == '`', str_scan(r1) == (len(r1) - len(source)) + str_scan(source))",
                "implies(head != '`', contextual_token_value + source == r1 and not (head in contextual_token_value))",
            ],
            hints=["unfold(str_val(source))", "unfold(str_scan(source))"],
            hints_end=["unfold(str_val(source))", "unfold(str_scan(source))"],
        ),
        2: dict(  # number
            entry={"r1": "source", "v1": "contextual_token_value"},
            inv=[
                "len(source) <= len(r1)",
                "contextual_token_value + source == v1 + r1",
                "num_len(v1, r1) == (len(r1) - len(source)) + num_len(contextual_token_value, source)",
            ],
            pre=["source", "contextual_token_value"],
            hints_end=["unfold(num_len(contextual_token_value0, source0))"],
            hints_exit=["unfold(num_len(contextual_token_value, source))"],
        ),
        3: dict(  # two-character string
            entry={"r1": "source"},
            inv=["contextual_token_value + source == r1", "len(contextual_token_value) <= 2"],
        ),
        4: dict(  # variable name
            entry={"r1": "source"},
            inv=[
                "contextual_token_value + source == r1",
                f"implies({DG}, contextual_token_value == '')",
                f"implies(not {DG}, span_letters(r1) == len(contextual_token_value) + span_letters(source))",
            ],
            hints=["unfold(span_letters(source))"],
        ),
        5: dict(  # comment
            entry={"r1": "source"},
            inv=["len(source) <= len(r1)", "r1[len(r1) - len(source):] == source", "not ('\\n' in r1[:len(r1) - len(source)])"],
        ),
    },
    props=["C03", "C04", "C05", "C06", "C18", "C20"],
)

# ---- C03 / C04 / C06: what the lexer specification says about literal payloads
W.lemma(
    "string_payload_is_data",
    vars=dict(p=STR, rest=STR),
    requires=["strbody(p)"],
    goal="str_scan(p + '`' + rest) == len(p) and str_val(p + '`' + rest) == p",
    ih=[dict(at=dict(p="p[2:]"), measure="len(p)", when="len(p) >= 2 and p[0] == '\\\\'"),
        dict(at=dict(p="p[1:]"), measure="len(p)", when="len(p) >= 1 and p[0] != '\\\\'")],
    hints=["unfold(strbody(p))", "unfold(str_scan(p + '`' + rest))", "unfold(str_val(p + '`' + rest))",
           "(p + '`' + rest)[2:] == p[2:] + '`' + rest or len(p) < 2", "(p + '`' + rest)[1:] == p[1:] + '`' + rest or len(p) < 1"],
    fuel=0,
    props=["C03", "C06"],
    note="`p` followed by a back-quote: the string token is exactly p and lexing resumes right after the closing quote, whatever p contains",
)

W.lemma(
    "unterminated_string_same_token",
    vars=dict(p=STR),
    requires=["strbody(p)"],
    goal="str_val(p) == p and str_scan(p) == len(p)",
    ih=[dict(at=dict(p="p[2:]"), measure="len(p)", when="len(p) >= 2 and p[0] == '\\\\'"),
        dict(at=dict(p="p[1:]"), measure="len(p)", when="len(p) >= 1 and p[0] != '\\\\'")],
    hints=["unfold(strbody(p))", "unfold(str_scan(p))", "unfold(str_val(p))"],
    fuel=0,
    props=["C04"],
    note="a string left unterminated at the end of the program yields the same token as the closed one (with string_payload_is_data, rest = '')",
)

W.lemma(
    "compressed_payload_is_data",
    vars=dict(p=STR, h=STR, rest=STR),
    requires=["len(h) == 1", "not (h in p)"],
    goal="until(p + h + rest, h) == p and (p + h + rest)[len(p) + 1:] == rest and until(p, h) == p",
    props=["C03", "C04", "C15"],
)

W.lemma(
    "comment_is_skipped",
    vars=dict(p=STR, rest=STR),
    requires=["not ('\\n' in p)"],
    goal="after_line(p + '\\n' + rest) == rest and after_line(p) == ''",
    props=["C03"],
)

# ---- C18 / C05: what the specification says about the text of name and number tokens
W.lemma(
    "variable_token_is_letters",
    vars=dict(r=STR),
    goal="span_letters(r) >= 0 and only_chars(r[:span_letters(r)], LETTERS)",
    ih=[dict(at=dict(r="r[1:]"), measure="len(r)", when="len(r) > 0 and r[0] in LETTERS")],
    hints=["unfold(span_letters(r))", "unfold(only_chars(r[:span_letters(r)], LETTERS))", "unfold(only_chars(r[:0], LETTERS))"],
    asserts=["implies(len(r) > 0 and span_letters(r[1:]) >= 0, r[:1 + span_letters(r[1:])][1:] == r[1:][:span_letters(r[1:])])"],
    fuel=0,
    props=["C18"],
    note="the value of a VARIABLE_GET / VARIABLE_SET token (r[:var_len(r)]) consists of ASCII letters and underscores only",
)

W.lemma(
    "number_token_is_digits",
    vars=dict(v=STR, r=STR),
    goal="num_len(v, r) >= 0 and only_chars(r[:num_len(v, r)], DIGITS)",
    ih=[dict(at=dict(v="v + r[0]", r="r[1:]"), measure="len(r)", when="len(r) > 0 and r[0] in DIGITS and numok(v + r[0])")],
    hints=["unfold(num_len(v, r))", "unfold(only_chars(r[:num_len(v, r)], DIGITS))", "unfold(only_chars(r[:0], DIGITS))"],
    asserts=["implies(len(r) > 0 and num_len(v + r[0], r[1:]) >= 0, r[:1 + num_len(v + r[0], r[1:])][1:] == r[1:][:num_len(v + r[0], r[1:])])"],
    fuel=0,
    props=["C18", "C05"],
    note="the text of a NUMBER token after its first character consists of digits, '.' and '°' only",
)

W.lemma(
    "leading_zero_stands_alone",
    vars=dict(r=STR, dg=BOOL),
    requires=["not (len(r) > 0 and r[0] in '°.')"],
    goal="lex_tokens('0', r, dg) == [Token(TokenType.NUMBER, '0')] and lex_rest('0', r, dg) == r",
    props=["C05"],
    note="a 0 that is not followed by a point or degree sign is a number token of its own",
)

W.lemma(
    "second_point_starts_a_new_number",
    vars=dict(v=STR, r=STR),
    requires=["not ('°' in v)", "'.' in v"],
    goal="num_len(v, '.' + r) == 0",
    hints=["unfold(num_len(v, '.' + r))"],
    asserts=["(v + '.').count('.') >= 2 or True"],
    fuel=0,
    props=["C05"],
    note="a literal that already has a decimal point is not extended by another point",
)
