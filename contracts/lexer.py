"""vyxal/lexer.py::tokenise against the lexer specification (C03, C04, C05, C06, C18, C20)."""
from pyvc.sym import INT, BOOL, STR, CHAR, VAL, SEQ
from . import W
from .lexspec import TOKEN
from . import lexspec  # noqa

DG = "variables_as_digraphs"

W.contract(
    "vyxal/lexer.py::tokenise",
    params=dict(source_str=STR, variables_as_digraphs=BOOL),
    result=SEQ(TOKEN),
    ensures=[f"result == lex(source_str, {DG})"],
    witness=dict(source_str="`a\\`b` 1.5 →x", variables_as_digraphs=False),
    fuel=0,
    semantic_prune=True,
    loops={
        0: dict(
            types={"tokens": SEQ(TOKEN)},
            inv=[f"lex(source_str, {DG}) == tokens + lex(source, {DG})"],
            hints_end=[f"unfold(lex(source0, {DG}))"],
            hints_exit=[f"unfold(lex(source, {DG}))"],
            pre=["source", "tokens"],
            lets={"h": "source0[0]", "r": "source0[1:]"},
            step=[f"tokens == tokens0 + lex_tokens(h, r, {DG})", f"source == lex_rest(h, r, {DG})"],
        ),
        1: dict(  # body of `...` / »...» / «...«
            entry={"r1": "source"},
            inv=[
                "len(source) <= len(r1)",
                "r1[len(r1) - len(source):] == source",
                "implies(head == '`', str_val(r1) == contextual_token_value + str_val(source))",
                "implies(head == '`', str_scan(r1) == (len(r1) - len(source)) + str_scan(source))",
                "implies(head != '`', contextual_token_value + source == r1 and not (head in contextual_token_value))",
            ],
            hints=["unfold(str_val(source))", "unfold(str_scan(source))"],
            hints_end=["unfold(str_val(source))", "unfold(str_scan(source))"],
        ),
        2: dict(  # number
            entry={"r1": "source", "v1": "contextual_token_value"},
            inv=[
                "len(source) <= len(r1)",
                "contextual_token_value + source == v1 + r1",
                "num_len(v1, r1) == (len(r1) - len(source)) + num_len(contextual_token_value, source)",
            ],
            pre=["source", "contextual_token_value"],
            hints_end=["unfold(num_len(contextual_token_value0, source0))"],
            hints_exit=["unfold(num_len(contextual_token_value, source))"],
        ),
        3: dict(  # two-character string
            entry={"r1": "source"},
            inv=["contextual_token_value + source == r1", "len(contextual_token_value) <= 2"],
        ),
        4: dict(  # variable name
            entry={"r1": "source"},
            inv=[
                "contextual_token_value + source == r1",
                f"implies({DG}, contextual_token_value == '')",
                f"implies(not {DG}, span_letters(r1) == len(contextual_token_value) + span_letters(source))",
            ],
            hints=["unfold(span_letters(source))"],
        ),
        5: dict(  # comment
            entry={"r1": "source"},
            inv=["len(source) <= len(r1)", "r1[len(r1) - len(source):] == source", "not ('\\n' in r1[:len(r1) - len(source)])"],
        ),
    },
    props=["C03", "C04", "C05", "C06", "C18", "C20"],
)
