"""vyxal/LazyList.py, second batch (C13): equality of two lazy lists, equality with a plain list, counting.
Same abstract view as contracts/lazylist.py; every method is verified from arbitrary states of BOTH lists that
satisfy the representation invariant -- that is what decides "regardless of which observations were made before"
when the two operands have been observed to different depths."""
from pyvc.sym import INT, BOOL, STR, CHAR, VAL, SEQ
from pyvc.world import ListOf, IterOf, ObjSpec
from . import W
from . import lazylist  # noqa
from .lazylist import LAZY, LL, MODS

SRC_S, K_S = "it_src(self.raw_object)", "it_pos(self.raw_object)"
SRC_O, K_O = "it_src(other.raw_object)", "it_pos(other.raw_object)"
INV_S = f"self.generated == {SRC_S}[:{K_S}]"
INV_O = f"other.generated == {SRC_O}[:{K_O}]"

W.contract(
    "vyxal/helpers.py::simplify",
    params=dict(value=ListOf(VAL)), result=ListOf(VAL), ensures=["result == value"], trusted=True,
    note="simplify turns lazy lists nested in a value into plain lists; on a value that contains none it is the identity (assumed: its recursion over nested values is outside the encoding)",
    props=["C13"],
)

W.contract(
    LL + "__eq__#lazy",
    params=dict(self=LAZY, other=LAZY), result=BOOL, requires=[INV_S, INV_O],
    ensures=[f"result == ({SRC_S} == {SRC_O})", INV_S, INV_O],
    ensures_names=["C13-equality-is-equality-of-the-enumerated-lists", "C13-inv", "C13-inv-other"],
    modifies=MODS + ["other.generated", "other.raw_object"],
    note="ll == other lazy list, both observed to arbitrary (different) depths before: true exactly when the two enumerated sequences are equal",
    props=["C13"],
)

W.contract(
    LL + "__eq__#list",
    params=dict(self=LAZY, other=ListOf(VAL)), result=BOOL, requires=[INV_S],
    ensures=[f"result == ({SRC_S} == other)", INV_S],
    ensures_names=["C13-equality-with-a-plain-list", "C13-inv"],
    modifies=MODS,
    note="ll == plain list (without nested lazy lists): true exactly when the enumerated sequence equals the list",
    props=["C13"],
)

W.contract(
    LL + "__add__",
    params=dict(self=LAZY, rhs=ListOf(VAL)), result=SEQ(VAL), yields=VAL, requires=[INV_S],
    ensures=[f"result == {SRC_S} + rhs", INV_S],
    ensures_names=["C13-concatenation-is-the-lists-concatenation", "C13-inv"],
    modifies=MODS,
    note="ll + plain list: the enumerated sequence followed by the list's items, from any cache state (`yield from self` goes through __iter__'s contract)",
    props=["C13"],
)
