"""vyxal/LazyList.py: class LazyList against the list it enumerates (C13), with pull counts (C14) and
balance of ctx.stacks while printing (C12).

Abstract view: src = the whole sequence the underlying iterator runs over (ghost, it_src), k = its
position (it_pos).  Representation invariant INV: generated == src[:k].  Every method is verified
from an arbitrary state satisfying INV -- that is what decides "regardless of earlier observations"."""
from pyvc.sym import INT, BOOL, STR, CHAR, VAL, SEQ
from pyvc.world import ListOf, IterOf, ObjSpec
from . import W
from .inputs import ctx_spec, revv
from . import inputs  # noqa

LAZY = ObjSpec("LazyList", dict(generated=ListOf(VAL), raw_object=IterOf(VAL), infinite=BOOL))
LAZY.relpath = "vyxal/LazyList.py"
W.obj_specs["LazyList"] = LAZY
LL = "vyxal/LazyList.py::LazyList."
SRC = "it_src(self.raw_object)"
K = "it_pos(self.raw_object)"
INV = f"self.generated == {SRC}[:{K}]"
LETS = {"k0": K, "gen0": "self.generated"}
MODS = ["self.generated", "self.raw_object"]

W.contract(
    "vyxal/helpers.py::vyxalify",
    params=dict(value=VAL), result=VAL, ensures=["result == value"], trusted=True,
    note="vyxalify is the identity on values that already are Vyxal values (int, Rational, str, list, LazyList, function); the sources of lazy lists in C13 are sequences of such values",
    props=["C13", "C14"],
)

W.contract(
    LL + "__next__",
    params=dict(self=LAZY), result=VAL, lets=LETS, requires=[INV],
    raises={"StopIteration": dict(when=f"{K} >= len({SRC})", ensures=[f"{K} == k0", "self.generated == gen0"], modifies=[])},
    ensures=[f"result == {SRC}[k0]", f"{K} == k0 + 1", INV],
    modifies=MODS,
    props=["C13", "C14"],
)

W.contract(
    LL + "has_ind",
    params=dict(self=LAZY, ind=INT), result=BOOL, lets=LETS, requires=[INV],
    ensures=[
        f"result == (0 <= ind and ind < len({SRC}))",
        INV,
        # C14: pulls only what the question needs
        f"{K} == max(k0, min(ind + 1, len({SRC})))",
    ],
    ensures_names=["C13-has_ind-value", "C13-inv", "C14-pulls-only-needed"],
    modifies=MODS,
    loops={0: dict(inv=[INV, f"{K} == k0 + _k", f"k0 + _k <= len({SRC})", "k0 <= ind"])},
    props=["C13", "C14"],
)

W.contract(
    LL + "__getitem__",
    params=dict(self=LAZY, position=INT), result=VAL, lets=LETS,
    requires=[INV, f"position >= -len({SRC})"],
    ensures=[
        INV,
        f"implies(position >= 0 and len({SRC}) == 0, result == 0)",
        f"implies(0 <= position and position < len({SRC}), result == {SRC}[position])",
        f"implies(position >= len({SRC}) and len({SRC}) > 0, result == {SRC}[position % len({SRC})])",
        f"implies(position < 0, result == {SRC}[position])",
        f"implies(position >= 0, {K} == max(k0, min(position + 1, len({SRC}))))",
    ],
    ensures_names=["C13-inv", "C13-index-empty", "C13-index", "C13-index-wraps", "C13-negative-index", "C14-pulls-only-needed"],
    modifies=MODS,
    loops={2: dict(inv=[INV, f"k0 <= {K}", f"{K} <= max(k0, position + 1)", f"{K} <= len({SRC})", "position >= 0", "k0 <= position"])},
    props=["C13", "C14"],
)

def _slice_param(lo, hi):
    def mk(ex, name):
        from pyvc.engine import PySlice
        from pyvc.sym import named

        return PySlice(named(lo, INT) if lo else None, named(hi, INT) if hi else None, None)

    return mk


W.contract(
    LL + "__getitem__#slice",
    params=dict(self=LAZY, position=_slice_param("a", "b")), ghost=dict(a=INT, b=INT), result=SEQ(VAL), lets=LETS,
    requires=[INV, "0 <= a", "0 <= b"],
    ensures=[INV, f"result == {SRC}[a:b]", f"{K} == (max(k0, min(b, len({SRC}))) if a < b else k0)"],
    ensures_names=["C13-inv", "C13-slice", "C14-pulls-only-needed"],
    modifies=MODS,
    loops={1: dict(inv=[INV, f"ret == {SRC}[a:a + _k]", f"{K} == (max(k0, a + _k) if _k > 0 else k0)", "a + _k <= b or _k == 0", f"a + _k <= len({SRC}) or _k == 0"], types={"ret": SEQ(VAL)})},
    note="ll[a:b] with 0 <= a, 0 <= b: the items of the list's own slice (it stops at the end of the list), and no item beyond b is pulled (the first-n-items case of C14)",
    props=["C13", "C14"],
)

W.contract(
    LL + "__getitem__#tail",
    params=dict(self=LAZY, position=_slice_param("a", None)), ghost=dict(a=INT), result=SEQ(VAL), yields=VAL, lets=LETS,
    requires=[INV, "0 <= a"],
    at_yield=[INV, f"{K} <= max(k0, a + len(_yielded))", f"_yielded == {SRC}[a:a + len(_yielded)]"],
    ensures=[INV, f"result == {SRC}[a:]"],
    ensures_names=["C13-inv", "C13-tail"],
    modifies=MODS,
    loops={0: dict(inv=[INV, "i >= a", f"_yielded == {SRC}[a:i]", f"i <= len({SRC}) or len(_yielded) == 0", f"{K} <= max(k0, i)", "len(_yielded) == (i - a if i <= len(" + SRC + ") else 0)"])},
    note="ll[a:] stays lazy: when item j of the tail is yielded at most a+j+1 items have been pulled",
    props=["C13", "C14"],
)

W.contract(
    LL + "__getitem__#from-the-end",
    params=dict(self=LAZY, position=_slice_param("a", None)), ghost=dict(a=INT), result=SEQ(VAL), lets=LETS,
    requires=[INV, "a < 0"],
    ensures=[INV, f"result == {SRC}[a:]", f"{K} == len({SRC})"],
    ensures_names=["C13-inv", "C13-slice-from-the-end", "C13-fully-generated"],
    modifies=MODS,
    note="ll[a:] with a < 0 counts from the end: the whole (finite) list is generated and sliced as a list",
    props=["C13"],
)

W.contract(
    LL + "__iter__",
    params=dict(self=LAZY), result=SEQ(VAL), yields=VAL, lets=LETS, requires=[INV],
    yields_expr=SRC,
    at_yield=[INV, f"{K} >= len(_yielded)", f"{K} <= max(k0, len(_yielded))", f"_yielded == {SRC}[:len(_yielded)]"],
    ensures=[f"result == {SRC}", INV, f"{K} == len({SRC})"],
    ensures_names=["C13-iterates-the-list", "C13-inv", "C13-fully-generated"],
    modifies=MODS,
    loops={0: dict(inv=[INV, f"_yielded == {SRC}[:i]", f"i <= len({SRC})", f"{K} == i", "i >= k0"])},
    hints=[f"{SRC}[:len({SRC})] == {SRC}"],
    props=["C13", "C14"],
)

W.contract(
    LL + "__iter__#interleaved",
    params=dict(self=LAZY), result=SEQ(VAL), yields=VAL, lets=LETS, requires=[INV],
    interference=dict(lets={"k_b": K}, modifies=MODS, rely=[INV, f"{K} >= k_b"]),
    ensures=[f"result == {SRC}", INV],
    ensures_names=["C13-iterates-the-list-whatever-happens-between-yields", "C13-inv"],
    modifies=MODS,
    loops={"yieldfrom#0": dict(inv=[INV, f"_yielded == {SRC}[:_j]", "0 <= _j", "_j <= len(_yf)", "_yf == self.generated"]),
           0: dict(inv=[INV, f"_yielded == {SRC}[:i]", "0 <= i", f"i <= len({SRC})"])},
    hints=[f"{SRC}[:len({SRC})] == {SRC}"],
    note="interleaved use: while the iterator is suspended at a yield, other references may pull further items (the cache only grows, "
         "the invariant is kept); the iterator still yields every item exactly once and in order.  This is the case of a copy "
         "(deep_copy tees the iterator) read in between observations of the original, and of two iterators in lock-step (x:Z)",
    props=["C13", "C16", "C10"],
)

W.contract(
    LL + "__len__",
    params=dict(self=LAZY), result=INT, lets=LETS, requires=[INV],
    ensures=[f"result == len({SRC})", INV],
    modifies=MODS,
    loops={0: dict(inv=[INV])},
    props=["C13"],
)

W.contract(
    LL + "__bool__",
    params=dict(self=LAZY), result=BOOL, lets=LETS, requires=[INV],
    ensures=[f"result == (len({SRC}) > 0)", INV, f"{K} == max(k0, min(1, len({SRC})))"],
    ensures_names=["C13-truthiness", "C13-inv", "C14-pulls-at-most-one"],
    modifies=MODS,
    props=["C13", "C14"],
)

W.contract(
    LL + "listify",
    params=dict(self=LAZY), result=ListOf(VAL), lets=LETS, requires=[INV],
    ensures=[f"result == {SRC}", INV, f"{K} == len({SRC})"],
    modifies=MODS,
    loops={0: dict(inv=[INV, f"temp == {SRC}[:{K}]"])},
    hints=[f"{SRC}[:len({SRC})] == {SRC}"],
    props=["C13"],
)

W.contract(
    LL + "__contains__",
    params=dict(self=LAZY, lhs=VAL), result=INT, lets=LETS, requires=[INV, "not self.infinite"],
    ensures=[f"(result == 1) == (lhs in {SRC})", "result == 0 or result == 1", INV],
    ensures_names=["C13-membership", "C13-membership-is-0-or-1", "C13-inv"],
    modifies=MODS,
    loops={1: dict(inv=[f"not (lhs in {SRC}[:_k])"], hints_exit=[f"{SRC}[:len({SRC})] == {SRC}"])},
    props=["C13"],
)

# ---- printing (C12): the stack registered while printing is unregistered again
PRINT_CTX = ctx_spec(vyxal_lists=BOOL, printed=BOOL)
for _name in ("vy_print", "vy_repr"):
    W.contract(
        f"vyxal/elements.py::{_name}",
        params=dict(lhs=VAL, end=VAL, ctx=PRINT_CTX) if _name == "vy_print" else dict(lhs=VAL, ctx=PRINT_CTX),
        result=VAL, ensures=[], modifies=["ctx.printed"], trusted=True,
        note=f"{_name} leaves the four bookkeeping lists of ctx as it found them (for lazy lists through LazyList.output, which is verified; for function values through the call protocol, C12's induction hypothesis)",
        props=["C12"],
    )


def _val_isinstance(self, ex, v, cls):
    import z3
    from pyvc.sym import SV, BOOL as _B, VAL_SORT
    from pyvc.templates import uf

    return SV(uf("isinstance_" + str(abs(hash(repr(cls))) % 10**6), [VAL_SORT], z3.BoolSort())(v.z), _B)


type(W).val_isinstance = _val_isinstance

W.contract(
    LL + "output",
    params=dict(self=LAZY, end=VAL, ctx=PRINT_CTX), lets={"st0": "ctx.stacks", "cv0": "ctx.context_values", "fs0": "ctx.function_stack", "ins0": "ctx.inputs", **LETS},
    requires=[INV],
    ensures=["ctx.stacks == st0", "ctx.context_values == cv0", "ctx.function_stack == fs0", "ctx.inputs == ins0", INV],
    ensures_names=["C12-stacks-restored", "C12-context_values", "C12-function_stack", "C12-inputs", "C13-inv"],
    modifies=MODS + ["ctx.stacks", "ctx.printed"],
    loops={0: dict(inv=["ctx.stacks[:len(st0)] == st0", "len(ctx.stacks) == len(st0) + 1", INV]),
           1: dict(inv=["ctx.stacks[:len(st0)] == st0", "len(ctx.stacks) == len(st0) + 1", INV])},
    props=["C12", "C13"],
)
