"""LazyList contracts (C13, C14, C12) -- below"""
from . import W  # noqa
