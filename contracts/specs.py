"""Spec functions: plain, pure Python (single return expression, recursion allowed).
The same source is (a) executed natively when a counterexample is replayed and
(b) unfolded symbolically (with fuel) by the VC generator."""
from pyvc.sym import INT, BOOL, STR, CHAR, VAL, SEQ
from pyvc.native import implies, forall_int, exists_int  # noqa (native meaning; symbolic meaning is built in)
from . import W


@W.spec([SEQ(INT), INT], INT)
def horner(ds, b):
    """value of the digit list ds (most significant first) in base b"""
    return 0 if len(ds) == 0 else horner(ds[:-1], b) * b + ds[-1]


@W.spec([INT, INT], SEQ(INT))
def digitsM(n, b):
    """digits of n >= 0 in base b >= 2, most significant first"""
    return [n] if n < b else digitsM(n // b, b) + [n % b]


@W.spec([SEQ(INT)], SEQ(INT))
def revi(s):
    return [] if len(s) == 0 else [s[-1]] + revi(s[:-1])


W.rev_spec_for[repr(SEQ(INT))] = "revi"  # s[::-1] on integer lists *is* revi


@W.spec([STR, STR], SEQ(INT))
def idxs(v, a):
    """positions in alphabet a of the characters of v"""
    return [] if len(v) == 0 else idxs(v[:-1], a) + [a.find(v[-1])]


@W.spec([SEQ(INT), STR], STR)
def chars_at(ds, a):
    """string of alphabet characters selected by the digit list"""
    return "" if len(ds) == 0 else chars_at(ds[:-1], a) + a[ds[-1]]


@W.spec([SEQ(INT), STR], BOOL)
def all_found(ds, a):
    """every digit indexes the alphabet and the alphabet finds it back"""
    return True if len(ds) == 0 else (all_found(ds[:-1], a) and 0 <= ds[-1] and ds[-1] < len(a) and a.find(a[ds[-1]]) == ds[-1])


@W.spec([STR], BOOL)
def injective(a):
    """alphabet without repeated characters: find inverts indexing"""
    return forall_int(lambda d: implies(0 <= d and d < len(a), a.find(a[d]) == d))


@W.spec([STR, STR], BOOL)
def all_in(v, a):
    """every character of v occurs in a"""
    return True if len(v) == 0 else (all_in(v[:-1], a) and a.find(v[-1]) >= 0)


@W.spec([SEQ(INT)], STR)
def chrs(ds):
    return "" if len(ds) == 0 else chrs(ds[:-1]) + chr(ds[-1])


@W.spec([SEQ(INT), INT], BOOL)
def all_below(ds, b):
    return True if len(ds) == 0 else (all_below(ds[:-1], b) and 0 <= ds[-1] and ds[-1] < b)
