"""C14 / C16, generator level, second batch: append / prepend (concat), take-while, insert at a position, map at
multiples of n, map every second item (two elements), distribute.  Same model as contracts/laziness.py: the
generator is run to completion with the ghost `_yielded`; in iteration _k of `for item in source` exactly _k + 1
source items have been consumed; the obligation at every yield point is consumed <= yielded + c."""
from pyvc.sym import INT, BOOL, STR, CHAR, VAL, SEQ
from pyvc.engine import UFn, Builtin
from pyvc.world import ListOf
from . import W
from .vectorise import _prim_setup
from . import vectorise, folds, laziness  # noqa
from .laziness import _setup_with_fn, _setup_map  # noqa

COMMON = dict(executor="template", fuel=0, frame_check=False, may_raise=True)


# ---------------------------------------------------------------- concat (append / prepend / merge of lazy lists)
def _setup_concat(ex, fr):
    _prim_setup("concat")(ex, fr)

    class TY(UFn):
        """type(x) of a list parameter: the verified branch is the one taken when at least one side is a LazyList"""

        def __init__(self):
            self.name = "type"

        def apply(self, ex, args, kwargs):
            return Builtin("LazyList")

    fr.env["type"] = TY()
    fr.env["LazyList"] = Builtin("LazyList")


W.contract(
    "vyxal/helpers.py::concat#lazy",
    params=dict(vec1=ListOf(VAL), vec2=ListOf(VAL), ctx=VAL), result=VAL, yields=VAL, setup=_setup_concat,
    ensures=["items(result) == vec1 + vec2"],
    loops={0: dict(inv=["_yielded == vec1[:_k]"]),
           1: dict(inv=["_yielded == vec1 + vec2[:_k]"])},
    at_yield=["_k + 1 <= len(_yielded)", "len(_yielded) <= len(vec1) or _k + 1 + len(vec1) <= len(_yielded)"],
    asserts=["vec1[:len(vec1)] == vec1", "vec2[:len(vec2)] == vec2"],
    note="concat (lazy branch): the items of the first list, then those of the second; item j needs j+1 items of the first list, or all of it and j+1-len(first) of the second",
    props=["C14", "C16"], **COMMON,
)


# ---------------------------------------------------------------- argument kinds for overload dispatch
def _setup_kinds(shape, **kinds):
    """vy_type(x) answers by which parameter x is: kinds maps a parameter name to 'number' | 'function' | 'str';
    a list parameter is a list.  This fixes the overload whose generator is verified (stated in the note)."""
    import types as _types

    base = _prim_setup(shape)

    def setup(ex, fr):
        base(ex, fr)
        from pyvc.state import Ref

        answers = {"number": "number", "function": _types.FunctionType, "str": Builtin("str")}
        params = {n: fr.env.get(n) for n in kinds}

        class VT(UFn):
            def __init__(self):
                self.name = "vy_type"

            def apply(self, ex, args, kwargs):
                out = []
                for a in args:
                    if isinstance(a, Ref):
                        out.append(Builtin("list"))
                        continue
                    hit = [n for n, v in params.items() if v is a or (hasattr(v, "z") and hasattr(a, "z") and v.z.eq(a.z))]
                    if len(hit) != 1:
                        from pyvc.engine import OutOfSubset
                        raise OutOfSubset("vy_type of a value that is not a declared parameter")
                    out.append(answers[kinds[hit[0]]])
                return out[0] if len(out) == 1 else tuple(out)

        fr.env["vy_type"] = VT()

    return setup


W.contract(
    "vyxal/elements.py::all_less_than_increasing#lazy",
    params=dict(lhs=ListOf(VAL), rhs=VAL, ctx=VAL), result=VAL, yields=VAL, setup=_prim_setup("takewhile"),
    at_yield=["_k + 1 <= len(_yielded)"],
    loops={0: dict(inv=["len(_yielded) == _k"])},
    ensures=["len(items(result)) <= len(lhs)"],
    note="take while less than: item j needs j+1 source items, and the first item that fails ends the iteration (one look-ahead)",
    props=["C14"], **COMMON,
)

W.contract(
    "vyxal/elements.py::insert_or_map_nth#insert",
    params=dict(lhs=ListOf(VAL), rhs=INT, other=VAL, ctx=VAL), result=VAL, yields=VAL,
    setup=_setup_kinds("insert", rhs="number", other="number"),
    at_yield=["_k + 1 <= len(_yielded)"],
    loops={0: dict(inv=["i == _k", "_yielded == (lhs[:_k] if _k <= rhs or rhs < 0 else lhs[:rhs] + [other] + lhs[rhs:_k])"])},
    ensures=["rhs == len(lhs) or rhs < 0 or items(result) == (lhs[:rhs] + [other] + lhs[rhs:] if rhs < len(lhs) else lhs + [other])",
             "len(items(result)) >= len(lhs)"],
    asserts=["lhs[:len(lhs)] == lhs"],
    note="insert (overload any, num, non-function): the source with `other` before position rhs, appended when rhs is past the end (on the pinned tree inserting at position len(a) inserts nothing, and a negative position is not replaced by its absolute value as the docstring says: outside every listed property, excluded from the content clause, noted in DESIGN 9.4); when item j is yielded at most j+1 source items have been consumed",
    props=["C14"], **COMMON,
)

W.contract(
    "vyxal/elements.py::insert_or_map_nth#map",
    params=dict(lhs=ListOf(VAL), rhs=INT, other=VAL, ctx=VAL), result=VAL, yields=VAL,
    setup=_setup_kinds("mapnth", rhs="number", other="function"),
    requires=["rhs != 0"],
    at_yield=["_k + 1 <= len(_yielded)"],
    loops={1: dict(inv=["i == _k", "len(_yielded) == _k"])},
    ensures=["len(items(result)) == len(lhs)"],
    note="map every n-th item (overload any, num, fun): item j needs j+1 source items",
    props=["C14"], **COMMON,
)

W.contract(
    "vyxal/elements.py::split_keep#fun",
    params=dict(lhs=VAL, rhs=ListOf(VAL), ctx=VAL), result=VAL, yields=VAL,
    setup=_setup_kinds("splitkeep", lhs="function"),
    at_yield=["_k + 1 <= len(_yielded)"],
    loops={0: dict(inv=["len(_yielded) == _k"])},
    ensures=["len(items(result)) == len(rhs)"],
    note="apply to every second item starting with the first (overload fun, any): item j needs j+1 source items",
    props=["C14"], **COMMON,
)

W.contract(
    "vyxal/elements.py::wrap#fun",
    params=dict(lhs=ListOf(VAL), rhs=VAL, ctx=VAL), result=VAL, yields=VAL,
    setup=_setup_kinds("wrapfun", rhs="function"),
    at_yield=["_k + 1 <= len(_yielded)"],
    loops={0: dict(inv=["len(_yielded) == _k"])},
    ensures=["len(items(result)) == len(lhs)"],
    note="apply to every second item (overload any, fun): item j needs j+1 source items",
    props=["C14"], **COMMON,
)

W.contract(
    "vyxal/elements.py::wrap#chunks",
    params=dict(lhs=ListOf(VAL), rhs=INT, ctx=VAL), result=VAL, yields=VAL,
    setup=_setup_kinds("chunks", rhs="number"),
    requires=["rhs >= 1"],
    at_yield=["_k + 1 <= chunk_size * len(_yielded)"],
    loops={2: dict(inv=["_k == chunk_size * len(_yielded) + len(temp)", "len(temp) < chunk_size", "chunk_size == rhs"], types={"temp": SEQ(VAL)})},
    ensures=["rhs * (len(items(result)) - 1) < len(lhs) or len(lhs) == 0", "len(lhs) <= rhs * len(items(result))"],
    note="chunks of length n (overload any, num): chunk j needs n*(j+1) source items",
    props=["C14"], **COMMON,
)
