"""C16: flatten concatenates leaves (elements.deep_flatten against its defining recursion over nested values)."""
import z3

from pyvc.sym import INT, BOOL, STR, CHAR, VAL, SEQ, SV, VAL_SORT
from pyvc.engine import UFn
from pyvc.world import ListOf
from pyvc.templates import uf
from . import W
from . import laziness2  # noqa
from .vectorise import _prim_setup


class _IsListValue(UFn):
    """clause function isl(x): x is a list or a lazy list -- the very test `type(x) in (LazyList, list)` of the code"""

    def __init__(self):
        self.name = "isl"

    def apply(self, ex, args, kwargs):
        v = ex.to_val(args[0])
        one = lambda nm: uf("exact_type_" + nm, [VAL_SORT], z3.BoolSort())(v.z)
        return SV(z3.Or(one("LazyList"), one("list")), BOOL)


W.clause_globals["isl"] = _IsListValue()


@W.spec([SEQ(VAL)], SEQ(VAL))
def flat(v):
    """the leaves of a nested list value, left to right"""
    return [] if len(v) == 0 else flat(v[:-1]) + (flat(items(v[-1])) if isl(v[-1]) else [v[-1]])


W.contract(
    "vyxal/elements.py::deep_flatten",
    params=dict(lhs=ListOf(VAL), ctx=VAL), result=VAL, yields=VAL, setup=_prim_setup("flatten"),
    ensures=["items(result) == flat(lhs)"],
    loops={0: dict(inv=["_yielded == flat(lhs[:_k])"],
                   hints_init=["unfold(flat(lhs[:0]))"],
                   hints_end=["unfold(flat(lhs[:_k]))"],
                   asserts_end=["lhs[:_k][:-1] == lhs[:_k - 1]", "lhs[:_k][-1] == lhs[_k - 1]"])},
    asserts=["lhs[:len(lhs)] == lhs"],
    note="flatten: the leaves in order; the recursive call on a nested item is taken at this very contract (induction over the nesting depth of the value, which is finite for every value a program can build)",
    props=["C16"], executor="template", fuel=0, frame_check=False, may_raise=True,
)
