"""C16: flatten concatenates leaves (elements.deep_flatten against its defining recursion over nested values)."""
import z3

from pyvc.sym import INT, BOOL, STR, CHAR, VAL, SEQ, SV, VAL_SORT
from pyvc.engine import UFn
from pyvc.world import ListOf
from pyvc.templates import uf
from . import W
from . import laziness2  # noqa
from .vectorise import _prim_setup


class _IsListValue(UFn):
    """clause function isl(x): x is a list or a lazy list -- the very test `type(x) in (LazyList, list)` of the code"""

    def __init__(self):
        self.name = "isl"

    def apply(self, ex, args, kwargs):
        v = ex.to_val(args[0])
        one = lambda nm: uf("exact_type_" + nm, [VAL_SORT], z3.BoolSort())(v.z)
        return SV(z3.Or(one("LazyList"), one("list")), BOOL)


W.clause_globals["isl"] = _IsListValue()


@W.spec([SEQ(VAL)], SEQ(VAL))
def flat(v):
    """the leaves of a nested list value, left to right"""
    return [] if len(v) == 0 else flat(v[:-1]) + (flat(items(v[-1])) if isl(v[-1]) else [v[-1]])


W.contract(
    "vyxal/elements.py::deep_flatten",
    params=dict(lhs=ListOf(VAL), ctx=VAL), result=VAL, yields=VAL, setup=_prim_setup("flatten"),
    ensures=["items(result) == flat(lhs)"],
    loops={0: dict(inv=["_yielded == flat(lhs[:_k])"],
                   hints_init=["unfold(flat(lhs[:0]))"],
                   hints_end=["unfold(flat(lhs[:_k]))"],
                   asserts_end=["lhs[:_k][:-1] == lhs[:_k - 1]", "lhs[:_k][-1] == lhs[_k - 1]"])},
    asserts=["lhs[:len(lhs)] == lhs"],
    note="flatten: the leaves in order; the recursive call on a nested item is taken at this very contract (induction over the nesting depth of the value, which is finite for every value a program can build)",
    props=["C16"], executor="template", fuel=0, frame_check=False, may_raise=True,
)


# ---------------------------------------------------------------- reduce and product (C16: product matches the fold definition)
from .laziness2 import _setup_kinds  # noqa: E402
from .laziness import _setup_with_fn  # noqa: E402
from .folds import folds  # noqa: E402,F401

_RC = dict(executor="template", fuel=0, frame_check=False, may_raise=True, props=["C16"])
W.contract(
    "vyxal/elements.py::vy_reduce",
    params=dict(lhs=VAL, rhs=ListOf(VAL), ctx=VAL), result=VAL, setup=_setup_kinds("reduce", lhs="function"),
    requires=["len(rhs) >= 1"],
    ensures=["result == folds(lhs, rhs)"],
    note="reduce, overload (fun, any): the left fold of the list by the function (wrapper obligation over foldl's contract); this is the shape `product` calls",
    **_RC,
)
W.contract(
    "vyxal/elements.py::vy_reduce#list-first",
    params=dict(lhs=ListOf(VAL), rhs=VAL, ctx=VAL), result=VAL, setup=_setup_kinds("reduce", rhs="function"),
    requires=["len(lhs) >= 1"],
    ensures=["result == folds(rhs, lhs)"],
    note="reduce, overload (any, fun)",
    **_RC,
)


def _setup_product(ex, fr):
    _setup_with_fn("product", the_mul="multiply")(ex, fr)


W.contract(
    "vyxal/elements.py::product#law",
    params=dict(lhs=ListOf(VAL), ctx=VAL), result=VAL, setup=_setup_product,
    requires=["len(lhs) >= 1"],
    ensures=["result == folds(the_mul, lhs)"],
    note="product of a non-empty list is the left fold of the element `multiply` (wrapper obligation over reduce's contract)",
    **_RC,
)


# ---------------------------------------------------------------- reverse (C16: reverse is an involution)
from .inputs import revv  # noqa: E402,F401
from . import inputs  # noqa: E402

W.contract(
    "vyxal/elements.py::reverse#list",
    params=dict(lhs=ListOf(VAL), ctx=VAL), result=VAL, setup=_setup_kinds("reverse"),
    ensures=["items(result) == revv(lhs)"],
    note="reverse of a plain list is the reversed sequence (the slice lhs[::-1], read through the engine's reversal spec)",
    **_RC,
)

W.lemma(
    "revv_of_append", vars=dict(s=SEQ(VAL), x=VAL),
    goal="revv(s + [x]) == [x] + revv(s)",
    ih=[dict(at=dict(s="s[1:]"), measure="len(s)", when="len(s) > 0")],
    hints=["unfold(revv(s + [x]))", "unfold(revv(s))", "unfold(revv([x]))", "unfold(revv([x][1:]))"],
    asserts=["len(s) == 0 or (s + [x])[1:] == s[1:] + [x]", "len(s) == 0 or (s + [x])[0] == s[0]"],
    fuel=0, props=["C16"], executor="template",
    note="reversal moves an appended item to the front",
)

W.lemma(
    "revv_is_an_involution", vars=dict(s=SEQ(VAL)),
    goal="revv(revv(s)) == s",
    ih=[dict(at=dict(s="s[1:]"), measure="len(s)", when="len(s) > 0")],
    hints=["unfold(revv(s))", "revv_of_append(revv(s[1:]), s[0])"],
    asserts=["len(s) == 0 or [s[0]] + s[1:] == s"],
    fuel=0, props=["C16"], executor="template",
    note="reversing twice gives the list back (with reverse#list: the element is an involution on plain lists)",
)
