"""C14, generator level, third batch: windows (overlapping groups)."""
from pyvc.sym import INT, BOOL, STR, CHAR, VAL, SEQ
from pyvc.world import ListOf
from . import W
from . import laziness2  # noqa
from .laziness2 import _setup_kinds, COMMON

W.contract(
    "vyxal/elements.py::overlapping_groups#windows",
    params=dict(lhs=ListOf(VAL), rhs=INT, ctx=VAL), result=VAL, yields=VAL,
    setup=_setup_kinds("windows", rhs="number"),
    requires=["rhs >= 1"],
    at_yield=["_k + 1 <= len(_yielded) + rhs - 1"],
    loops={0: dict(inv=["len(window) == (_k if _k < rhs - 1 else rhs - 1)", "len(_yielded) == (0 if _k < rhs else _k - rhs + 1)"], types={"window": SEQ(VAL)})},
    ensures=["len(items(result)) == (0 if len(lhs) < rhs else len(lhs) - rhs + 1)"],
    note="windows of length n (overload any, num; list source): window j needs j+n source items",
    props=["C14"], **COMMON,
)
