"""vyxal/transpile.py::transpile_token (C05, C06, C18)"""
from pyvc.sym import INT, BOOL, STR, CHAR, VAL, SEQ
from pyvc.engine import UFn
from vyxal.lexer import TokenType
from pyvc.native import implies, forall_int, exists_int  # noqa
from . import W
from .lexspec import TOKEN
from . import lexspec  # noqa

TW = UFn("tw_indent", [STR, INT], STR, note="textwrap.indent(text, 4*n spaces)")
REPR = UFn("py_repr_str", [STR], STR, note="repr() of a str: one Python string literal denoting it")
UNC_STR = UFn("uncompressed_text", [TOKEN], STR, note="helpers.uncompress on a STRING / COMPRESSED_STRING token")
UNC_NUM = UFn("uncompressed_number", [TOKEN], INT, note="helpers.uncompress on a COMPRESSED_NUMBER token")
W.clause_globals.update(tw_indent=TW, py_repr_str=REPR, uncompressed_text=UNC_STR, uncompressed_number=UNC_NUM)
import vyxal.encoding as _enc
import vyxal as _vyxal
W.clause_globals.update(vyxal=_vyxal)
W.py_repr = lambda v, ex: REPR.apply(ex, [v], {}) if not isinstance(v, (int, str)) else repr(v)

W.contract(
    "vyxal/helpers.py::indent_str",
    params=dict(string=STR, indent=INT, end=STR), result=STR,
    ensures=["result == tw_indent(string, indent) + end"], trusted=True,
    note="indent_str(s, n, end) is textwrap.indent(s, 4n spaces) + end",
    props=["C05", "C06", "C18"],
)


def _unc_result(ex, env):
    import ast

    tok = env["token"]
    if ex.branch(ex.compare(ast.Eq(), ex.getattr(tok, "name"), TokenType.COMPRESSED_NUMBER)):
        return UNC_NUM.apply(ex, [tok], {})
    return UNC_STR.apply(ex, [tok], {})


W.contract(
    "vyxal/helpers.py::uncompress",
    params=dict(token=TOKEN), result=_unc_result, ensures=[], trusted=True,
    note="helpers.uncompress returns an int for COMPRESSED_NUMBER tokens and a str for STRING / COMPRESSED_STRING tokens (the decoders themselves are C15's subject)",
    props=["C05", "C06", "C18"],
)


@W.spec([STR], STR)
def pyq(s):
    """body of the Python string literal emitted for the token text s: back-quote escapes dropped, other
    backslash pairs kept, a backslash that ends the text doubled, double quote and newline escaped"""
    return (
        ""
        if len(s) == 0
        else (("`" if s[1:2] == "`" else ("\\\\" if len(s) == 1 else "\\" + s[1:2])) + pyq(s[2:]))
        if s[0] == "\\"
        else ('\\"' + pyq(s[1:]))
        if s[0] == '"'
        else ("\\n" + pyq(s[1:]))
        if s[0] == "\n"
        else s[0] + pyq(s[1:])
    )


K = "token.name"
V = "token.value"
REM = "it_src(iterator)[it_pos(iterator):]"
W.contract(
    "vyxal/transpile.py::transpile_token",
    params=dict(token=TOKEN, indent=INT, dict_compress=BOOL), result=STR,
    requires=[f"{K} != TokenType.GENERAL", f"implies({K} == TokenType.NUMBER, len({V}) > 0 and not ('+' in {V}) and not ('°' in {V}))"],
    note="NUMBER tokens with a degree sign (complex literals) are outside this contract",
    ensures=[
        f"implies({K} == TokenType.STRING and not dict_compress, result == tw_indent('stack.append(\"' + pyq({V}) + '\")', indent) + '\\n')",
        f"implies({K} == TokenType.STRING and dict_compress, result == tw_indent('stack.append(\"' + pyq(uncompressed_text(token)) + '\")', indent) + '\\n')",
        f"implies({K} == TokenType.NUMBER and not ('°' in {V}) and '.' in {V} and {V} != '.', result == tw_indent('stack.append(sympy.Rational(\"' + {V} + '\"))', indent) + '\\n')",
        f"implies({K} == TokenType.NUMBER and not ('°' in {V}) and not ('.' in {V}), result == tw_indent('stack.append(sympy.nsimplify(\"' + {V} + '\"))', indent) + '\\n')",
        f"implies({K} == TokenType.COMPRESSED_NUMBER, result == tw_indent('stack.append(' + str(uncompressed_number(token)) + ')', indent) + '\\n')",
        f"implies({K} == TokenType.COMPRESSED_STRING, result == tw_indent('stack.append(' + py_repr_str(uncompressed_text(token)) + ')', indent) + '\\n')",
        f"implies({K} == TokenType.CHARACTER, result == tw_indent('stack.append(' + py_repr_str({V}) + ')', indent) + '\\n')",
        f"implies({K} == TokenType.CODEPAGE_NUMBER, result == tw_indent('stack.append(' + str(encoding.codepage.find({V}) + 101) + ')', indent) + '\\n')",
        f"implies({K} == TokenType.VARIABLE_GET and len({V}) > 0 and {V}[0] != '_', result == tw_indent('stack.append(VAR_' + {V} + ');', indent) + '\\n')",
        f"implies({K} == TokenType.VARIABLE_SET and len({V}) > 0 and {V}[0] != '_', result == tw_indent('VAR_' + {V} + ' = pop(stack, 1, ctx=ctx)', indent) + '\\n')",
        f"implies({K} == TokenType.VARIABLE_GET and len({V}) > 0 and {V}[0] == '_', result == tw_indent('stack.append(ctx.VAR_' + {V} + ')', indent) + '\\n')",
        f"implies({K} == TokenType.VARIABLE_SET and len({V}) > 0 and {V}[0] == '_', result == tw_indent('ctx.VAR_' + {V} + ' = pop(stack, 1, ctx)', indent) + '\\n')",
        f"implies({K} == TokenType.VARIABLE_GET and len({V}) == 0, result == tw_indent('stack.append(ctx.ghost_variable)', indent) + '\\n')",
        f"implies({K} == TokenType.VARIABLE_SET and len({V}) == 0, result == tw_indent('ctx.ghost_variable = pop(stack, 1, ctx=ctx)', indent) + '\\n')",
    ],
    ensures_names=["string-literal", "string-literal-dict", "decimal-literal-exact", "integer-literal", "compressed-number", "compressed-string", "character", "codepage-number",
                   "var-get", "var-set", "ctx-var-get", "ctx-var-set", "ghost-get", "ghost-set"],
    fuel=0, semantic_prune=True,
    loops={0: dict(
        inv=[f"pyq(string) == temp + pyq({REM})"],
        hints=[f"unfold(pyq({REM}))"],
    )},
    hints=["unfold(pyq(''))", f"unfold(pyq({REM}))"] ,
    may_raise=("ValueError",),
    props=["C05", "C06", "C18"],
)


# transpile_single hands every token to transpile_token unchanged (nothing is cached or lowered on a side path):
# the same clauses, proved over transpile_token's contract (a caller sees only that contract)
_TT = W.contracts["vyxal/transpile.py::transpile_token"]


def _rn(e):
    return e.replace("token", "token_or_struct").replace("uncompressed_text(token_or_struct)", "uncompressed_text(token_or_struct)")


W.contract(
    "vyxal/transpile.py::transpile_single#token",
    params=dict(token_or_struct=TOKEN, indent=INT, dict_compress=BOOL), result=STR,
    requires=[_rn(r) for r in _TT.requires],
    ensures=[_rn(e) for e in _TT.ensures],
    ensures_names=["single-" + n for n in _TT.ensures_names],
    fuel=0, semantic_prune=True, may_raise=("ValueError",),
    note="a token reaches transpile_token with the same indent and compression flag; its text is returned as is",
    props=["C05", "C06", "C18"],
)


# ---------------------------------------------------------------- C06 / C18: the string chain
@W.spec([STR, STR, STR], STR)
def repl1(s, c, r):
    """s.replace(c, r) for a one-character c"""
    return "" if len(s) == 0 else (r if s[0] == c else s[0]) + repl1(s[1:], c, r)


@W.spec([STR], STR)
def esc(s):
    """what the quote element writes between the back-quotes: backslash and back-quote escaped"""
    return "" if len(s) == 0 else ("\\\\" if s[0] == "\\" else ("\\`" if s[0] == "`" else s[0])) + esc(s[1:])


@W.spec([STR], STR)
def pyval(q):
    """value CPython gives to the string literal body q for the escapes the transpiler emits"""
    return (
        ""
        if len(q) == 0
        else (("\\" if q[1:2] == "\\" else ('"' if q[1:2] == '"' else ("\n" if q[1:2] == "n" else "\\" + q[1:2]))) + pyval(q[2:]))
        if q[0] == "\\"
        else q[0] + pyval(q[1:])
    )


@W.spec([STR], BOOL)
def lit_ok(q):
    """q is the body of exactly one double-quoted Python literal: no bare double quote, no raw newline, every
    backslash followed by a character (so the closing quote is not escaped and the statement compiles)"""
    return True if len(q) == 0 else ((len(q) >= 2 and lit_ok(q[2:])) if q[0] == "\\" else (q[0] != '"' and q[0] != "\n" and lit_ok(q[1:])))


W.lemma(
    "literal_body_is_one_literal",
    vars=dict(s=STR),
    goal="lit_ok(pyq(s))",
    ih=[dict(at=dict(s="s[2:]"), measure="len(s)", when="len(s) >= 2"), dict(at=dict(s="s[1:]"), measure="len(s)", when="len(s) >= 1")],
    hints=["unfold(pyq(s))", "unfold(lit_ok(pyq(s)))", "unfold(pyq(s[2:]))", "unfold(lit_ok(''))"],
    asserts=["implies(len(s) >= 1 and s[0] != '\\\\' and s[0] != '\"' and s[0] != '\\n', (s[0] + pyq(s[1:]))[1:] == pyq(s[1:]))",
             "implies(len(s) >= 1, ('\\\\\"' + pyq(s[1:]))[2:] == pyq(s[1:]) and ('\\\\n' + pyq(s[1:]))[2:] == pyq(s[1:]))",
             "implies(len(s) >= 2, ('\\\\' + s[1:2] + pyq(s[2:]))[2:] == pyq(s[2:]) and ('`' + pyq(s[2:]))[1:] == pyq(s[2:]))",
             "implies(len(s) == 1, pyq(s[2:]) == '' and ('\\\\\\\\' + pyq(s[2:]))[2:] == '')"],
    fuel=0,
    props=["C18", "C06", "C02"],
    note="whatever the program's string contains (also a two-character string ending in a backslash), the text between the emitted double quotes has no bare quote, no raw newline and no unpaired backslash: it is at most one constant - and one constant unless it contains a malformed Python escape sequence (\\x, \\u, \\U, \\N cut short: recorded finding of C02), in which case the statement does not compile and nothing runs",
)

W.lemma(
    "escaped_text_is_a_string_body",
    vars=dict(s=STR),
    goal="strbody(esc(s))",
    ih=[dict(at=dict(s="s[1:]"), measure="len(s)", when="len(s) >= 1")],
    hints=["unfold(esc(s))", "unfold(strbody(esc(s)))", "unfold(strbody(''))"],
    asserts=["implies(len(s) >= 1, ('\\\\\\\\' + esc(s[1:]))[2:] == esc(s[1:]) and ('\\\\`' + esc(s[1:]))[2:] == esc(s[1:]))",
             "implies(len(s) >= 1 and s[0] != '\\\\' and s[0] != '`', (s[0] + esc(s[1:]))[1:] == esc(s[1:]))"],
    fuel=0,
    props=["C06"],
)

W.lemma(
    "quoted_text_evaluates_back",
    vars=dict(s=STR),
    goal="pyval(pyq(esc(s))) == s",
    ih=[dict(at=dict(s="s[1:]"), measure="len(s)", when="len(s) >= 1")],
    hints=["unfold(esc(s))", "unfold(pyq(esc(s)))", "unfold(pyval(pyq(esc(s))))", "unfold(pyq(''))", "unfold(pyval(''))"],
    asserts=["implies(len(s) >= 1, ('\\\\\\\\' + esc(s[1:]))[2:] == esc(s[1:]) and ('\\\\`' + esc(s[1:]))[2:] == esc(s[1:]))",
             "implies(len(s) >= 1 and s[0] != '\\\\' and s[0] != '`', (s[0] + esc(s[1:]))[1:] == esc(s[1:]))",
             "implies(len(s) >= 1, ('\\\\\\\\' + pyq(esc(s[1:])))[2:] == pyq(esc(s[1:])) and ('\\\\\"' + pyq(esc(s[1:])))[2:] == pyq(esc(s[1:])) and ('\\\\n' + pyq(esc(s[1:])))[2:] == pyq(esc(s[1:])))",
             "implies(len(s) >= 1, ('`' + pyq(esc(s[1:])))[1:] == pyq(esc(s[1:])) and (s[0] + pyq(esc(s[1:])))[1:] == pyq(esc(s[1:])))"],
    fuel=0,
    props=["C06"],
    note="the Python literal emitted for the quoted form of s denotes s",
)

W.lemma(
    "replace_chain_is_esc",
    vars=dict(s=STR),
    goal="repl1(repl1(s, '\\\\', '\\\\\\\\'), '`', '\\\\`') == esc(s)",
    ih=[dict(at=dict(s="s[1:]"), measure="len(s)", when="len(s) >= 1")],
    hints=["unfold(esc(s))", "unfold(repl1(s, '\\\\', '\\\\\\\\'))", "unfold(repl1(repl1(s, '\\\\', '\\\\\\\\'), '`', '\\\\`'))", "unfold(repl1('', '`', '\\\\`'))",
           "unfold(repl1(repl1(s, '\\\\', '\\\\\\\\')[1:], '`', '\\\\`'))"],
    asserts=["implies(len(s) >= 1, ('\\\\\\\\' + repl1(s[1:], '\\\\', '\\\\\\\\'))[1:] == '\\\\' + repl1(s[1:], '\\\\', '\\\\\\\\') and ('\\\\\\\\' + repl1(s[1:], '\\\\', '\\\\\\\\'))[1:][1:] == repl1(s[1:], '\\\\', '\\\\\\\\'))",
             "implies(len(s) >= 1, (s[0] + repl1(s[1:], '\\\\', '\\\\\\\\'))[1:] == repl1(s[1:], '\\\\', '\\\\\\\\'))"],
    fuel=0,
    props=["C06"],
    note="lhs.replace('\\\\', '\\\\\\\\').replace('`', '\\\\`') is the character-wise escaping esc",
)


class _VyTypeOfStr:
    """vy_type on a value the contract declares to be a str: the type object str"""

    name = "vy_type"

    def apply(self, ex, args, kwargs):
        from pyvc.sym import SV, OutOfSubset

        (v,) = args
        if isinstance(v, str) or (isinstance(v, SV) and v.ty.kind in ("str", "char")):
            from pyvc.engine import Builtin

            return Builtin("str")
        raise OutOfSubset("vy_type of a non-string in this contract")


def _quotify_setup(ex, fr):
    fr.env["vy_type"] = UFnLike(_VyTypeOfStr())


class UFnLike(UFn):
    def __init__(self, impl):
        self.impl = impl
        self.name = impl.name

    def apply(self, ex, args, kwargs):
        return self.impl.apply(ex, args, kwargs)


W.contract(
    "vyxal/elements.py::quotify",
    params=dict(lhs=STR, ctx=VAL), result=STR, setup=_quotify_setup,
    ensures=["result == '`' + esc(lhs) + '`'"],
    hints=["replace_chain_is_esc(lhs)"],
    fuel=0,
    note="string overload of the quote element (vy_type(lhs) is str because lhs is declared a str)",
    props=["C06"],
)


@W.spec([STR, STR], BOOL)
def none_in(v, a):
    """no character of v is one of the characters of a"""
    return True if len(v) == 0 else (not (v[0] in a) and none_in(v[1:], a))


# ---- C06, dictionary compression on: printable-ASCII text without compression digits is left alone
COMPRESSION = "vyxal.encoding.compression"
W.contract(
    "vyxal/helpers.py::uncompress_dict",
    params=dict(source=STR), result=STR,
    requires=["strbody(source)", f"none_in(source, {COMPRESSION})"],
    ensures=["result == source"],
    loops={0: dict(
        inv=["temp_scc == ''", "ret + ('\\\\' if escaped else '') + characters == source",
             "(len(characters) >= 1 and strbody(characters[1:])) if escaped else strbody(characters)",
             f"none_in(characters, {COMPRESSION})"],
        hints=["unfold(strbody(characters))", f"unfold(none_in(characters, {COMPRESSION}))", "unfold(strbody(characters[1:]))"],
    )},
    hints=["unfold(strbody(characters))"],
    fuel=0,
    witness=dict(source="ab\\`c"),
    note="for the escaped form esc(s) of a printable-ASCII string (no dictionary digits, every backslash followed by a character) decompression is the identity",
    props=["C06"],
)

W.lemma(
    "escaping_adds_no_dictionary_digits",
    vars=dict(s=STR),
    requires=[f"none_in(s, {COMPRESSION})"],
    goal=f"none_in(esc(s), {COMPRESSION})",
    ih=[dict(at=dict(s="s[1:]"), measure="len(s)", when="len(s) >= 1")],
    hints=[f"unfold(none_in(s, {COMPRESSION}))", "unfold(esc(s))", f"unfold(none_in(esc(s), {COMPRESSION}))", f"unfold(none_in(esc(s)[1:], {COMPRESSION}))", f"unfold(none_in('', {COMPRESSION}))"],
    asserts=["implies(len(s) >= 1, ('\\\\\\\\' + esc(s[1:]))[1:] == '\\\\' + esc(s[1:]) and ('\\\\' + esc(s[1:]))[1:] == esc(s[1:]) and ('\\\\`' + esc(s[1:]))[1:] == '`' + esc(s[1:]) and ('`' + esc(s[1:]))[1:] == esc(s[1:]))",
             "implies(len(s) >= 1 and s[0] != '\\\\' and s[0] != '`', (s[0] + esc(s[1:]))[1:] == esc(s[1:]))"],
    fuel=0,
    props=["C06"],
    note="backslash and back-quote are not dictionary digits, so the escaped form of a string without dictionary digits has none either (precondition of uncompress_dict's contract)",
)


# ---------------------------------------------------------------- glue: transpile is exactly tokenise -> parse -> transpile_ast
from pyvc.templates import uf as _uf  # noqa: E402
from pyvc.sym import VAL_SORT as _VS  # noqa: E402


def _named(name, n):
    f = UFn(name, [VAL] * n, VAL, note=f"the result of {name[4:]}(...) (names the callee's result; nothing is assumed about it)")
    f.z = _uf(name, [_VS] * n, _VS)
    return f


W.clause_globals.update(r_tokenise=_named("app_tokenise", 2), r_parse=_named("app_parse", 1), r_transpile_ast=_named("app_transpile_ast", 2))
W.contract(
    "vyxal/transpile.py::transpile#glue",
    params=dict(program=VAL, dict_compress=VAL, variables_as_digraphs=VAL), result=VAL,
    ensures=["result == r_transpile_ast(r_parse(r_tokenise(program, variables_as_digraphs)), dict_compress)"],
    executor="template", fuel=0, frame_check=False, may_raise=True, opaque_calls=["tokenise", "parse", "transpile_ast"],
    note="no side path: the text returned for a program is transpile_ast(parse(tokenise(program, digraphs)), dict_compress=dict_compress), whatever the program",
    props=["C05", "C06", "C18", "C02"],
)


# ---------------------------------------------------------------- helpers.uncompress: the dispatcher itself, one case per token kind
# (the base contract above names its result for callers; these cases tie the real dispatcher to the decoders of C15
#  and to uncompress_dict, so that a fast path or a cache in front of them fails an obligation)
from . import codecs as _codecs  # noqa: E402,F401

_NUMA = "vyxal.encoding.codepage_number_compress"
_STRA = "vyxal.encoding.codepage_string_compress"
W.contract(
    "vyxal/helpers.py::uncompress#number",
    params=dict(token=TOKEN), result=INT,
    requires=["token.name == TokenType.COMPRESSED_NUMBER"],
    ensures=[f"result == horner(idxs(token.value, {_NUMA}), len({_NUMA}))"],
    ensures_names=["compressed-number-is-the-base-255-value"],
    note="a compressed-number token is decoded by uncompress_num, whatever its characters",
    props=["C18", "C15", "C06"],
)
W.contract(
    "vyxal/helpers.py::uncompress#cstring",
    params=dict(token=TOKEN), result=STR,
    requires=["token.name == TokenType.COMPRESSED_STRING", f"horner(idxs(token.value, {_STRA}), len({_STRA})) >= 0"],
    ensures=[f"result == chars_at(digitsM(horner(idxs(token.value, {_STRA}), len({_STRA})), 27), vyxal.encoding.base_27_alphabet)"],
    ensures_names=["compressed-string-is-the-base-27-text"],
    props=["C18", "C15", "C06"],
)
W.contract(
    "vyxal/helpers.py::uncompress#string",
    params=dict(token=TOKEN), result=STR,
    requires=["token.name == TokenType.STRING", "strbody(token.value)", f"none_in(token.value, {COMPRESSION})"],
    ensures=["result == token.value"],
    ensures_names=["string-without-dictionary-digits-is-itself"],
    note="a back-quoted string without dictionary digits is returned as it stands (uncompress_dict's contract)",
    props=["C06", "C18"],
)
