"""C20: code page conversion loops in vyxal/encoding.py"""
from pyvc.sym import INT, BOOL, STR, CHAR, VAL, SEQ
from . import W
from . import specs, codecs  # noqa

W.contract(
    "vyxal/encoding.py::vyxal_to_utf8",
    params=dict(code=SEQ(INT)),
    result=STR,
    requires=["forall_int(lambda i: implies(0 <= i and i < len(code), 0 <= code[i] and code[i] < 256))"],
    abstract_globals={"codepage": (STR, ["len(codepage) == 256"])},
    witness=dict(code=[0, 255, 65]),
    ensures=["result == chars_at(code, codepage)"],
    loops={0: dict(inv=["processed_code == chars_at(code[:_k], codepage)"], hints=["chars_at(code[:_k+1], codepage)"])},
    hints=["code[:len(code)] == code"],
    props=["C20"],
)

W.contract(
    "vyxal/encoding.py::utf8_to_vyxal",
    params=dict(code=STR),
    result=STR,
    requires=["forall_int(lambda i: implies(0 <= i and i < len(code), codepage.find(code[i]) >= 0))"],
    abstract_globals={"codepage": (STR, [])},
    witness=dict(code="λa⟩"),
    ensures=["result == chrs(idxs(code, codepage))"],
    loops={0: dict(inv=["processed_code == chrs(idxs(code[:_k], codepage))"], hints=["idxs(code[:_k+1], codepage)", "chrs(idxs(code[:_k+1], codepage))"])},
    hints=["code[:len(code)] == code"],
    props=["C20"],
)

W.lemma(
    "chars_at_idxs",
    vars=dict(v=STR, a=STR),
    requires=["all_in(v, a)"],
    goal="chars_at(idxs(v, a), a) == v",
    ih=[dict(at=dict(v="v[:-1]"), measure="len(v)", when="len(v) > 0")],
    hints=["all_in(v, a)", "idxs(v, a)", "chars_at(idxs(v, a), a)", "(idxs(v[:-1], a) + [a.find(v[-1])])[:-1] == idxs(v[:-1], a)"],
    props=["C20"],
    note="text -> code-page indices -> text is the identity for text over the code page",
)
