"""C01: structures execute as specified -- per-template refinement obligations.

Leaf templates: the pop / bind / push protocol of documents/specs/Transpilation.md ("rhs, lhs = pop(stack, 2);
stack.append(expr)": lhs is the deeper entry).  Structure templates (emitted by the real transpile on probe
programs): clauses transcribed from Structures.md / Transpilation.md, sub-programs as uninterpreted state
transformers H_k(stack, context value)."""
from __future__ import annotations

import ast
import re
import z3

from pyvc.sym import INT, BOOL, STR, CHAR, VAL, SEQ, VAL_SORT
from pyvc.world import ListOf, Contract
from pyvc.engine import UFn, RealFn
from pyvc.templates import TemplateExecutor, template_function, holes_in, Hole, uf, VUNLIST
from pyvc.verify import verify_function, FunctionReport
from . import W
from .inputs import ctx_spec
from .templates import full_ctx, elements_globals, register_template, LeafExecutor, _template_sink, CTX_MODS
from . import templates, vectorise  # noqa (vectorise: clause function items())

PUSHED = re.compile(r"^(?:(?:third, )?(?:rhs, )?lhs|_) = pop\(stack, (\d), ctx\); stack\.append\((.*)\)$", re.S)


def leaf_protocol(world, lo, hi):
    import vyxal.elements as el

    rep = FunctionReport(f"semantics#leaf[{lo}:{hi}]")
    world.sink_handler = _template_sink
    keys = sorted(el.elements)[lo:hi]
    errors, skipped = [], []
    for k in keys:
        tpl, arity = el.elements[k]
        expr = None
        try:
            body = ast.parse(tpl).body
            if (len(body) == 2 and isinstance(body[0], ast.Assign) and ast.unparse(body[0].value) == f"pop(stack, {arity}, ctx)"
                    and isinstance(body[1], ast.Expr) and isinstance(body[1].value, ast.Call) and ast.unparse(body[1].value.func) == "stack.append" and len(body[1].value.args) == 1):
                expr = ast.unparse(body[1].value.args[0])
        except SyntaxError:
            pass
        if expr is None:
            skipped.append(k)  # hand-written template: its stack effect is documented per element, not by the protocol
            continue
        names = {1: ["lhs"], 2: ["lhs", "rhs"], 3: ["lhs", "rhs", "third"]}.get(arity, [])
        lets = {"S0": "stack"}
        for i, nm in enumerate(names):
            lets[nm + "_doc"] = f"stack[{i - arity}]"  # documented binding: lhs is the deepest consumed entry
        if k in ("¼", "ż", "ẏ", "Q"):  # the pushed expression has an effect of its own (pops the global array, exits) or builds a range object
            skipped.append(k)
            continue
        clause_expr = re.sub(r"\b(lhs|rhs|third)\b", lambda mm: mm.group(1) + "_doc", expr)
        clause_expr = re.sub(r"\bstack\b", "S0", clause_expr)  # the expression is evaluated before the push
        ck = dict(
            params=dict(stack=ListOf(VAL), ctx=full_ctx()), lets=lets,
            requires=[f"len(stack) >= {arity}", "len(ctx.inputs) >= 1", "len(ctx.context_values) >= 1", "len(ctx.stacks) >= 1", "not ctx.reverse_flag"],
            ensures=[f"stack == S0[:len(S0) - {arity}] + [{clause_expr}]"], ensures_names=["C01-pop-bind-push-protocol"],
            modifies=["stack"] + CTX_MODS, frame_check=False, fuel=4, may_raise=True,
        )
        try:
            key = register_template(f"sem[{k}]", tpl, ck)
        except SyntaxError as e:
            errors.append(f"{k}: {e}")
            continue
        r = verify_function(world, key, executor_cls=ProtocolExecutor)
        rep.paths += r.paths
        rep.obligations += [ob for ob in r.obligations if ob.kind != "cover"]
        if r.error:
            errors.append(f"sem[{k}]: {r.error}")
    rep.path_notes.append(f"hand-written templates not covered by the protocol clause: {skipped}")
    if errors:
        rep.error, rep.error_kind = "; ".join(errors[:5]), "subset"
    import hashlib

    rep.source_hash = hashlib.sha256(repr([(k, el.elements[k]) for k in keys]).encode()).hexdigest()[:16]
    return rep


def _register():
    import vyxal.elements as el

    n = len(el.elements)
    for lo in range(0, n, 50):
        W.analysis(f"semantics#leaf[{lo}:{lo + 50}]", (lambda lo: lambda world: leaf_protocol(world, lo, lo + 50))(lo), props=["C01"])


_register()


# ---------------------------------------------------------------- structures: refinement against the documented clauses
def H(k):
    return uf(f"H{k}", [z3.SeqSort(VAL_SORT), VAL_SORT], z3.SeqSort(VAL_SORT))


class _HoleFn(UFn):
    """clause function H700k(stack, n): the sub-program's effect on the stack, given the context value it sees"""

    def __init__(self, k):
        self.k, self.name = k, f"H{k}"

    def apply(self, ex, args, kwargs):
        from pyvc.sym import SV, lift

        s = ex.to_sv(args[0], SEQ(VAL))
        n = lift(ex.to_sv(args[1], VAL), VAL)
        return SV(H(self.k)(s.z, n.z), SEQ(VAL))


for _k in (7001, 7002, 7003, 7004):
    W.clause_globals[f"H{_k}"] = _HoleFn(_k)


class _Truthy(UFn):
    def __init__(self):
        self.name = "truthy"

    def apply(self, ex, args, kwargs):
        from pyvc.sym import SV

        v = ex.to_val(args[0])
        return SV(uf("app_boolify_truth", [VAL_SORT], z3.BoolSort())(v.z), BOOL)


W.clause_globals["truthy"] = _Truthy()


def _sem_hole(ex, fr, k):
    """a sub-program: a deterministic function of the stack it finds and of the context value n"""
    from pyvc.sym import SV
    from pyvc.state import Ref

    st = fr.env["stack"]
    sv = ex.list_sv(st, SEQ(VAL)) if isinstance(st, Ref) else st
    ctx = fr.env["ctx"]
    cv = ex.list_sv(ex.p.cell(ctx).fields["context_values"])
    top = cv.z[z3.Length(cv.z) - 1]
    new = H(k)(sv.z, top)
    ex.p.assume(z3.Length(new) >= 1)  # simplification: a sub-program leaves at least one value (no implicit input inside the clauses)
    ex.p.cell(st).sv = SV(new, SEQ(VAL))
    ex.w.used_assumption("a sub-program is a deterministic function of the stack it finds and of the context value (it does not read inputs or variables): simplification of the refinement clauses")
    return None


class ProtocolExecutor(LeafExecutor):
    """only the stack protocol (pop, wrapify, get_input) is used by contract; every other function is uninterpreted,
    so that the same call written in a clause denotes the same term"""

    PROTOCOL = {"vyxal/helpers.py::pop", "vyxal/helpers.py::wrapify", "vyxal/helpers.py::get_input"}

    def call_function(self, fn, args, kwargs, node, fr, **kw):
        if getattr(fn, "key", None) in self.PROTOCOL:
            return super().call_function(fn, args, kwargs, node, fr, **kw)
        return self.opaque_call(getattr(fn, "name", "fn"), args, kwargs)


class SemExecutor(ProtocolExecutor):
    def e_Name(self, n, fr):
        if n.id.startswith("HOLE_"):
            return Hole(int(n.id[5:]))
        return super().e_Name(n, fr)

    def opaque_call(self, name, args, kwargs):
        from pyvc.sym import SV

        if name == "boolify" and args:
            v = self.to_val(args[0])
            return SV(uf("app_boolify_truth", [VAL_SORT], z3.BoolSort())(v.z), BOOL)
        return super().opaque_call(name, args, kwargs)


@W.spec([SEQ(VAL), SEQ(VAL)], SEQ(VAL))
def forfold(its, s):
    """for loop: the body runs once per item, in order, with n bound to the item"""
    return s if len(its) == 0 else forfold(its[1:], H7001(s, its[0]))


@W.spec([SEQ(VAL), VAL], SEQ(VAL))
def whileloop(s1, n0):
    """while loop, s1 = the stack after the condition code has run (it ends with the condition value):
    while it is truthy run the body with n bound to it, then the condition code again"""
    return whileloop(H7001(H7002(s1[:-1], s1[-1]), n0), n0) if truthy(s1[-1]) else s1[:-1]


S1 = "S0[:len(S0) - 1]"
X = "S0[-1]"
SEM_PROBES = {
    # name: (program, requires, [(clause name, clause)])
    "if": ("[7001]", ["len(stack) >= 1"], [
        ("C01-if-documented (n is set to the condition)", f"stack == (H7001({S1}, {X}) if truthy({X}) else {S1})"),
        ("C01-if-branch-selection (context value as implemented)", f"stack == (H7001({S1}, cv0[-1]) if truthy({X}) else {S1})")]),
    "if-else": ("[7001|7002]", ["len(stack) >= 1"], [
        ("C01-if-else-documented (n is set to the condition)", f"stack == (H7001({S1}, {X}) if truthy({X}) else H7002({S1}, {X}))"),
        ("C01-if-else-branch-selection (context value as implemented)", f"stack == (H7001({S1}, cv0[-1]) if truthy({X}) else H7002({S1}, cv0[-1]))")]),
    "for": ("(7001)", ["len(stack) >= 1"], [
        ("C01-for-runs-the-body-once-per-item-with-n-bound-to-it", f"stack == forfold(items(iterable({X}, range, ctx)), {S1})")]),
    "while": ("{7001|7002}", ["len(stack) >= 0"], [
        ("C01-while-runs-condition-then-body-while-truthy-with-n-bound-to-the-condition", "stack == whileloop(H7001(S0, cv0[-1]), cv0[-1])")]),
    "list": ("⟨7001|7002⟩", ["len(stack) >= 0"], [
        ("C01-list-items-each-on-their-own-copy-of-the-stack", "len(stack) == len(S0) + 1 and stack[:len(S0)] == S0"),
        ("C01-list-item-values", "implies(len(H7001(S0, cv0[-1])) > 0 and len(H7002(S0, cv0[-1])) > 0, items(stack[-1]) == [H7001(S0, cv0[-1])[-1], H7002(S0, cv0[-1])[-1]])")]),
}


def structure_semantics(world):
    import vyxal.transpile as tr

    rep = FunctionReport("semantics#structures")
    world.sink_handler = _template_sink
    world.hole_contract = _sem_hole
    world.val_never_none = True
    errors = []
    texts = []
    for name, (prog, req, clauses) in SEM_PROBES.items():
        text = holes_in(tr.transpile(prog))
        texts.append((name, text))
        ITS = "items(iterable(S0[-1], range, ctx))"
        ck = dict(
            params=dict(stack=ListOf(VAL), ctx=full_ctx()),
            loops={0: dict(inv=[f"forfold({ITS}, S0[:len(S0) - 1]) == forfold({ITS}[_k:], stack)", "ctx.context_values == cv0"],
                           hints=[f"unfold(forfold({ITS}[_k:], stack))"], asserts_end=[f"{ITS}[_k - 1:][1:] == {ITS}[_k:]", f"{ITS}[_k - 1:][0] == {ITS}[_k - 1]"],
                           hints_exit=[f"unfold(forfold({ITS}[_k:], stack))"])} if name == "for" else
                  # the loop head is the point before the condition code runs (template: while True: <condition>; if not ...: break; push n; <body>; pop n)
                  ({0: dict(inv=["whileloop(H7001(S0, cv0[-1]), cv0[-1]) == whileloop(H7001(stack, cv0[-1]), cv0[-1])", "ctx.context_values == cv0", "len(ctx.inputs) >= 1"],
                            hints=["unfold(whileloop(H7001(stack, cv0[-1]), cv0[-1]))"],
                            asserts_end=[])} if name == "while" else {}),
            lets={"S0": "stack", "cv0": "ctx.context_values"},
            requires=req + ["len(ctx.inputs) >= 1", "len(ctx.context_values) >= 1", "len(ctx.stacks) >= 1", "not ctx.reverse_flag"],
            ensures=[c for _, c in clauses], ensures_names=[n for n, _ in clauses],
            modifies=["stack"] + CTX_MODS, frame_check=False, fuel=4, may_raise=True,
        )
        key = register_template(f"semstruct[{name}]", text, ck)
        r = verify_function(world, key, executor_cls=SemExecutor)
        rep.paths += r.paths
        rep.obligations += [ob for ob in r.obligations if ob.kind != "cover"]
        if r.error:
            errors.append(f"{name}: {r.error}")
    if errors:
        rep.error, rep.error_kind = "; ".join(errors[:5]), "subset"
    import hashlib

    rep.source_hash = hashlib.sha256(repr(texts).encode()).hexdigest()[:16]
    return rep


W.analysis("semantics#structures", structure_semantics, props=["C01"])


# ---- the two-function modifiers: both functions see the same stack; only B's arguments are consumed
AA, AB = "function_A.arity", "function_B.arity"
MA, MB = f"min({AA}, len(S0))", f"min({AB}, len(S0))"
ITEMS_A = f"(revv(S0[len(S0) - {MA}:]) + reads(ins0, top0, {AA} - {MA}))"
INS_A = f"after_reads(ins0, top0, {AA} - {MA})"
ITEMS_B = f"(revv(S0[len(S0) - {MB}:]) + reads({INS_A}, top0, {AB} - {MB}))"
RES_A = f"safe_apply(function_A, *revv({ITEMS_A}), ctx=ctx)"
RES_B = f"safe_apply(function_B, *revv({ITEMS_B}), ctx=ctx)"
MOD_CLAUSES = {
    "₌": [("C01-parallel-apply: A and B both applied to the original stack, results pushed in order", f"stack == S0[:len(S0) - {MB}] + [{RES_A}, {RES_B}]")],
    "₍": [("C01-parallel-apply-to-list: A and B both applied to the original stack, results pushed as one pair", f"stack == S0[:len(S0) - {MB}] + [[{RES_A}, {RES_B}]]")],
}


def modifier_semantics(world):
    import vyxal.elements as el

    rep = FunctionReport("semantics#modifiers")
    world.sink_handler = _template_sink
    world.val_never_none = True
    errors = []
    for k, clauses in MOD_CLAUSES.items():
        def setup(ex, fr):
            from pyvc.sym import named

            for nm in ("function_A", "function_B"):
                fr.env[nm] = named(nm, VAL)

        ck = dict(
            params=dict(stack=ListOf(VAL), ctx=full_ctx()), setup=setup,
            lets={"S0": "stack", "ins0": "ctx.inputs", "top0": "ctx.use_top_input"},
            requires=["len(ctx.inputs) >= 1", "len(ctx.context_values) >= 1", "len(ctx.stacks) >= 1", "not ctx.reverse_flag"],
            ensures=[c for _, c in clauses], ensures_names=[n for n, _ in clauses],
            modifies=["stack"] + CTX_MODS, frame_check=False, fuel=1, may_raise=True,
        )
        key = register_template(f"semmod[{k}]", el.modifiers[k], ck)
        r = verify_function(world, key, executor_cls=ProtocolExecutor)
        rep.paths += r.paths
        rep.obligations += [ob for ob in r.obligations if ob.kind != "cover"]
        if r.error:
            errors.append(f"{k}: {r.error}")
    if errors:
        rep.error, rep.error_kind = "; ".join(errors[:5]), "subset"
    import hashlib

    rep.source_hash = hashlib.sha256(repr([el.modifiers[k] for k in MOD_CLAUSES]).encode()).hexdigest()[:16]
    return rep


W.analysis("semantics#modifiers", modifier_semantics, props=["C01"])


# ---- the lambda call protocol (Structures.md: arguments are popped from the caller's stack per the arity rule,
# the body runs on a stack of its own holding them, n is the argument (or the list of arguments), the result is the top)
LAM_ITEMS = "(revv(A0[len(A0) - min(k, len(A0)):]) + reads(ins0, top0, k - min(k, len(A0))))"


def lambda_semantics(world):
    import vyxal.transpile as tr
    from .templates import _nested_defs

    rep = FunctionReport("semantics#lambda")
    world.sink_handler = _template_sink
    world.hole_contract = _sem_hole
    world.val_never_none = True
    errors, texts = [], []
    for name, prog, karity in (("lambda", "λ7001;", "ctx.default_arity"), ("lambda-arity", "λ2|7001;", "2")):
        text = holes_in(tr.transpile(prog))
        texts.append(text)
        top = template_function(text, "tpl")
        nds = _nested_defs(top)
        if len(nds) != 1:
            errors.append(f"{name}: expected one nested lambda definition")
            continue
        nd = nds[0]
        # effective arity: explicit call arity, else a stored arity on the function value, else the written one
        K = f"(arity if arity != -1 else (self.stored_arity if 'stored_arity' in dir(self) else {karity}))"
        STK = LAM_ITEMS.replace("k", f"({K})") if False else None
        key = f"template::semlambda[{name}].{nd.name}"
        fn = RealFn(key, nd, elements_globals())
        fn.relpath = "template"
        world.fn_index[key] = fn
        world.index_loops(nd)
        clause_items = f"(revv(A0[len(A0) - min(kk, len(A0)):]) + reads(ins0, top0, kk - min(kk, len(A0))))"
        world.contracts[key] = Contract(
            key,
            params=dict(arg_stack=ListOf(VAL), self=VAL, arity=INT, ctx=full_ctx()),
            lets={"A0": "arg_stack", "ins0": "ctx.inputs", "top0": "ctx.use_top_input", "cv0": "ctx.context_values", "kk": K},
            requires=["len(ctx.inputs) >= 1", "len(ctx.context_values) >= 1", "len(ctx.stacks) >= 1", "ctx.default_arity >= 0", "arity >= -1", "not ctx.reverse_flag"],
            ensures=[
                f"arg_stack == A0[:len(A0) - min(kk, len(A0))]",
                f"implies(kk != 1, result == [H7001({clause_items}, list(deep_copy({clause_items})))[-1]])",
                f"implies(kk == 1, result == [H7001({clause_items}, deep_copy({clause_items}[0]))[-1]])",
            ],
            ensures_names=["C01-lambda-pops-its-arity-from-the-caller", "C01-lambda-result-is-top-of-own-stack (n = list of arguments)", "C01-lambda-result-is-top-of-own-stack (n = the single argument)"],
            modifies=["arg_stack"] + CTX_MODS, frame_check=False, fuel=4, may_raise=True,
        )
        r = verify_function(world, key, executor_cls=SemExecutor)
        rep.paths += r.paths
        rep.obligations += [ob for ob in r.obligations if ob.kind != "cover"]
        if r.error:
            errors.append(f"{name}: {r.error}")
    if errors:
        rep.error, rep.error_kind = "; ".join(errors[:5]), "subset"
    import hashlib

    rep.source_hash = hashlib.sha256(repr(texts).encode()).hexdigest()[:16]
    return rep


W.analysis("semantics#lambda", lambda_semantics, props=["C01"])
