"""C07: the number x number overloads of + - * / % and floor division are exact."""
import z3

from pyvc.sym import INT, BOOL, STR, CHAR, VAL, SEQ
from pyvc.engine import UFn, Builtin
from pyvc.numbers import Num, RAT
from . import W

KINDS = ["pyint", "sym"]


class _VyTypeNum(UFn):
    def __init__(self):
        self.name = "vy_type"

    def apply(self, ex, args, kwargs):
        from pyvc.sym import OutOfSubset

        def one(v):
            if isinstance(v, Num) or (isinstance(v, int) and not isinstance(v, bool)):
                return "number"
            raise OutOfSubset("vy_type of a non-number in this contract")

        args = [a for a in args if a is not None]
        return one(args[0]) if len(args) == 1 else tuple(one(a) for a in args)


def _setup(ka, kb):
    def setup(ex, fr):
        a = Num(z3.Real("lhs"), ka)
        b = Num(z3.Real("rhs"), kb)
        if ka == "pyint":
            ex.p.assume(a.z == z3.ToReal(z3.ToInt(a.z)))
        if kb == "pyint":
            ex.p.assume(b.z == z3.ToReal(z3.ToInt(b.z)))
        fr.env["lhs"], fr.env["rhs"] = a, b
        fr.env["vy_type"] = _VyTypeNum()

    return setup


class _Denotes(UFn):
    """clause function: exact_result(result) -> the rational it denotes (fails on non-numbers)"""

    def __init__(self):
        self.name = "value_of"

    def apply(self, ex, args, kwargs):
        from pyvc.sym import OutOfSubset

        v = ex.num(args[0]) if hasattr(ex, "num") else None
        if v is None:
            raise OutOfSubset(f"the result is not an exact number: {args[0]!r}")
        return v


class _FloorDivSpec(UFn):
    def __init__(self):
        self.name = "floor_quot"

    def apply(self, ex, args, kwargs):
        a, b = [ex.num(x) for x in args]
        return Num(z3.ToReal(z3.ToInt(a.z / b.z)), "sym")


W.clause_globals.update(value_of=_Denotes(), floor_quot=_FloorDivSpec())
SPEC = {
    "add": "value_of(result) == lhs + rhs",
    "subtract": "value_of(result) == lhs - rhs",
    "multiply": "value_of(result) == lhs * rhs",
    "divide": "value_of(result) == (0 if rhs == 0 else value_of(lhs) * 1 / value_of(rhs)) if False else implies(rhs != 0, value_of(result) * rhs == lhs) and implies(rhs == 0, value_of(result) == 0)",
    "modulo": "implies(rhs != 0, value_of(result) == lhs - rhs * floor_quot(lhs, rhs))",
    "integer_divide": "implies(rhs != 0, value_of(result) == floor_quot(lhs, rhs)) and implies(rhs == 0, value_of(result) == 0)",
}
SPEC["divide"] = "implies(rhs != 0, value_of(result) * rhs == lhs) and implies(rhs == 0, value_of(result) == 0)"
for _f, _post in SPEC.items():
    for _ka in KINDS:
        for _kb in KINDS:
            W.contract(
                f"vyxal/elements.py::{_f}#{_ka}-{_kb}",
                params=dict(lhs=("const", None), rhs=("const", None), ctx=VAL), setup=_setup(_ka, _kb),
                ensures=[_post], ensures_names=["exact-result"],
                requires=[] if _f != "modulo" else ["rhs != 0"],
                executor="numbers", frame_check=False, may_raise=("ZeroDivisionError",), fuel=0,
                note=f"number x number overload, representation kinds ({_ka}, {_kb})",
                props=["C07"],
            )


# ---------------------------------------------------------------- helpers.vyxalify: how results are normalised (wrapper obligations)
# vyxalify is trusted elsewhere as "the identity on Vyxal values"; here its two numeric branches are tied to the
# library call that makes them exact: nsimplify(..., rational=True).  Without rational=True sympy looks for a closed
# form within 1e-15 and an exact quotient comes back as an irrational product.
class _IsSympy(UFn):
    def __init__(self, answer):
        self.name, self.answer = "is_sympy", answer

    def apply(self, ex, args, kwargs):
        return self.answer


def _vyx_setup(kind):
    def setup(ex, fr):
        from pyvc.world import OpaqueValue

        fr.env["is_sympy"] = _IsSympy(kind == "sympy")
        ex.w.val_never_none = True

    return setup


class _IsInstanceOf(UFn):
    """isinstance(value, cls) decided by the case under verification"""

    def __init__(self, yes):
        self.name, self.yes = "isinstance", yes

    def apply(self, ex, args, kwargs):
        v, cls = args
        names = {getattr(c, "__name__", getattr(c, "name", str(c))) for c in (cls if isinstance(cls, tuple) else (cls,))}
        return bool(names & self.yes)


for _case, _yes, _expr in (
    ("sympy-value", set(), "sympy.nsimplify(value, rational=True)"),
    ("float", {"float", "complex"}, "sympy.nsimplify(value, rational=True)"),
):
    def _mk(case=_case, yes=_yes):
        def setup(ex, fr):
            fr.env["is_sympy"] = _IsSympy(case == "sympy-value")
            fr.env["isinstance"] = _IsInstanceOf(yes)
            ex.w.val_never_none = True

        return setup

    W.contract(
        f"vyxal/helpers.py::vyxalify#{_case}",
        params=dict(value=VAL), result=VAL, setup=_mk(),
        ensures=[f"result == ({_expr})"], ensures_names=["normalised-with-rational-True"],
        executor="template", frame_check=False, may_raise=True, fuel=0,
        note="the numeric branches of vyxalify hand the value to sympy.nsimplify with rational=True (the library call is uninterpreted: what matters is that this call, with this flag, is the one made)",
        props=["C07", "C05"],
    )
