"""C16: the fold-shaped helpers (helpers.foldl, helpers.scanl) against their defining recursion."""
from pyvc.sym import INT, BOOL, STR, CHAR, VAL, SEQ
from pyvc.world import ListOf
from . import W
from .vectorise import AP2, _prim_setup  # noqa (ap2 is the uninterpreted application safe_apply(f, a, b))
from . import vectorise  # noqa


@W.spec([VAL, SEQ(VAL)], VAL)
def folds(f, v):
    """left fold of a non-empty list: f(...f(f(v0, v1), v2)..., vn)"""
    return v[0] if len(v) <= 1 else ap2(f, folds(f, v[:-1]), v[-1])


@W.spec([VAL, SEQ(VAL)], SEQ(VAL))
def scans(f, v):
    """all left folds of the non-empty prefixes, in order (cumulative reduction)"""
    return [] if len(v) == 0 else scans(f, v[:-1]) + [folds(f, v)]


COMMON = dict(executor="template", fuel=0, frame_check=False, may_raise=True, props=["C16"])
W.contract(
    "vyxal/helpers.py::scanl",
    params=dict(function=VAL, vector=ListOf(VAL), ctx=VAL), result=VAL, yields=VAL, setup=_prim_setup("scan"),
    ensures=["implies(len(vector) >= 1, items(result) == scans(function, vector))"],
    loops={0: dict(peel="or-empty",
                   inv=["_k >= 1", "working == folds(function, vector[:_k])", "_yielded == scans(function, vector[:_k - 1])"],
                   hints_end=["unfold(folds(function, vector[:_k]))", "unfold(scans(function, vector[:_k - 1]))"],
                   asserts_end=["vector[:_k][:-1] == vector[:_k - 1]", "vector[:_k][-1] == vector[_k - 1]", "vector[:_k - 1][:-1] == vector[:_k - 2] or _k < 2"],
                   hints_exit=["unfold(scans(function, vector))", "unfold(scans(function, vector[:-1]))", "unfold(scans(function, vector[:_k - 1]))", "unfold(folds(function, vector))"],
                   hints_init=["unfold(folds(function, vector[:1]))", "unfold(scans(function, vector[:0]))"])},
    hints=["unfold(scans(function, vector))"],
    asserts=["vector[:len(vector)] == vector", "vector[:-1] == vector[:len(vector) - 1]"],
    note="cumulative reduction: the prefixes' folds in order, the whole fold last (non-empty vector)",
    **COMMON,
)

W.contract(
    "vyxal/helpers.py::foldl",
    params=dict(function=VAL, vector=ListOf(VAL), initial=("const", None), ctx=VAL), result=VAL, setup=_prim_setup("fold"),
    ensures=["implies(len(vector) >= 1, result == folds(function, vector))", "implies(len(vector) == 0, result == 0)"],
    loops={0: dict(peel=1, inv=["_k >= 1", "working == folds(function, vector[:_k])"],
                   hints_end=["unfold(folds(function, vector[:_k]))"],
                   asserts_end=["vector[:_k][:-1] == vector[:_k - 1]", "vector[:_k][-1] == vector[_k - 1]"],
                   hints_init=["unfold(folds(function, vector[:1]))"])},
    hints=["vector[:len(vector)] == vector"],
    note="reduce (non-empty vector, no initial value)",
    **COMMON,
)
