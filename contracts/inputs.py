"""C11 / C09: helpers.get_input and helpers.pop"""
from pyvc.sym import INT, BOOL, STR, CHAR, VAL, SEQ, REC
from pyvc.engine import RecordCtor
from pyvc.world import ListOf, ObjSpec
from pyvc.native import implies, forall_int, exists_int  # noqa
from . import W

SCOPE = REC("Scope", [("vals", SEQ(VAL)), ("cur", INT)])
SCOPES = SEQ(SCOPE)
W.records["Scope"] = RecordCtor(SCOPE, ["vals", "cur"])


class Scope(list):  # native meaning: a two-element list [vals, cur]
    def __init__(self, vals, cur):
        super().__init__([vals, cur])


W.clause_globals.update(Scope=Scope)


def ctx_spec(**over):
    fields = dict(
        inputs=ListOf(SCOPE), use_top_input=BOOL, retain_popped=BOOL, reverse_flag=BOOL, repl_mode=("const", False), empty_input_is_zero=BOOL,
        context_values=ListOf(VAL), stacks=ListOf(VAL), function_stack=ListOf(VAL), online=BOOL,
    )
    fields.update(over)
    s = ObjSpec("Context", fields, mutable={"use_top_input", "retain_popped", "reverse_flag"})
    return s


# ---- the input stream as pure functions of (scopes, use_top flag)
@W.spec([SCOPES, BOOL], VAL)
def gi_val(ins, top):
    """value delivered by one read"""
    return (
        (ins[0][0][ins[0][1] % len(ins[0][0])] if len(ins[0][0]) > 0 else 0)
        if top
        else (ins[-1][0][ins[-1][1] % len(ins[-1][0])] if len(ins[-1][0]) > 0 else 0)
    )


@W.spec([SCOPES, BOOL], SCOPES)
def gi_next(ins, top):
    """scopes after one read: the cursor of the scope that was read advances"""
    return (
        ([Scope(ins[0][0], ins[0][1] + 1)] + ins[1:] if len(ins[0][0]) > 0 else ins)
        if top
        else (ins[:-1] + [Scope(ins[-1][0], ins[-1][1] + 1)] if len(ins[-1][0]) > 0 else ins)
    )


@W.spec([SCOPES, BOOL, INT], SCOPES)
def after_reads(ins, top, n):
    return ins if n <= 0 else gi_next(after_reads(ins, top, n - 1), top)


@W.spec([SCOPES, BOOL, INT], SEQ(VAL))
def reads(ins, top, n):
    """the values of n successive reads"""
    return [] if n <= 0 else reads(ins, top, n - 1) + [gi_val(after_reads(ins, top, n - 1), top)]


W.contract(
    "vyxal/helpers.py::get_input",
    params=dict(ctx=ctx_spec()),
    result=VAL,
    lets={"ins0": "ctx.inputs", "top0": "ctx.use_top_input"},
    requires=["len(ctx.inputs) >= 1"],
    ensures=[
        "result == gi_val(ins0, top0)",
        "ctx.inputs == gi_next(ins0, top0)",
        "ctx.use_top_input == top0",
        "len(ctx.inputs) == len(ins0)",
    ],
    modifies=["ctx.inputs", "ctx.use_top_input"],
    note="environment assumption: stdin is at end of file (input() raises EOFError), so a read with no inputs yields 0",
    props=["C11", "C09", "C12"],
)


def _sink(ex, name, args, node):
    from pyvc.engine import _Raise
    from pyvc.sym import OutOfSubset

    if name == "input":
        ex.w.used_assumption("stdin is at end of file: input() raises EOFError")
        raise _Raise("EOFError")
    raise OutOfSubset(f"call of sink {name}")


W.sink_handler = _sink


@W.spec([SEQ(VAL)], SEQ(VAL))
def revv(s):
    """reversal of a list of values (defined from the front)"""
    return [] if len(s) == 0 else revv(s[1:]) + [s[0]]


W.rev_spec_for[repr(SEQ(VAL))] = "revv"

M = "min(count, len(S0))"
ITEMS = f"(revv(S0[len(S0) - {M}:]) + reads(ins0, top0, count - {M}))"
W.contract(
    "vyxal/helpers.py::pop",
    params=dict(iterable_object=ListOf(VAL), count=INT, ctx=ctx_spec()),
    lets={"S0": "iterable_object", "ins0": "ctx.inputs", "top0": "ctx.use_top_input"},
    requires=["count >= 0", "len(ctx.inputs) >= 1"],
    result=lambda ex, env: ex.make_result("pop", VAL if ex.branch(ex.compare(__import__("ast").Eq(), env["count"], 1)) else ListOf(VAL)),
    ensures=[
        f"implies(not ctx.retain_popped, iterable_object == S0[:len(S0) - {M}])",
        f"implies(ctx.retain_popped, iterable_object == S0[:len(S0) - {M}] + revv({ITEMS}))",
        f"ctx.inputs == after_reads(ins0, top0, count - {M})",
        "ctx.use_top_input == top0",
        f"result == {ITEMS}[0] if count == 1 else (result == revv({ITEMS}) if ctx.reverse_flag else result == {ITEMS})",
        "True if count == 1 else len(result) == count",
        "len(ctx.inputs) == len(ins0)",
    ],
    ensures_names=["stack-shrinks-by-popped", "retain-pushes-back", "inputs-advance", "flag-restored", "result-items", "result-length", "scopes-kept"],
    modifies=["iterable_object", "ctx.inputs", "ctx.use_top_input"],
    fuel=0,
    loops={
        0: dict(
            types={"popped_items": SEQ(VAL)},
            hints_init=["unfold(revv(S0[len(S0):]))", "unfold(reads(ins0, top0, 0))", "unfold(after_reads(ins0, top0, 0))"],
            inv=[
                "iterable_object == S0[:len(S0) - min(_k, len(S0))]",
                "popped_items == revv(S0[len(S0) - min(_k, len(S0)):]) + reads(ins0, top0, _k - min(_k, len(S0)))",
                "ctx.inputs == after_reads(ins0, top0, _k - min(_k, len(S0)))",
                "ctx.use_top_input == top0",
                "len(ctx.inputs) >= 1",
                "len(popped_items) == _k",
                "len(ctx.inputs) == len(ins0)",
            ],
            hints_end=["unfold(revv(S0[len(S0) - min(_k, len(S0)):]))", "unfold(reads(ins0, top0, _k - min(_k, len(S0))))", "unfold(after_reads(ins0, top0, _k - min(_k, len(S0))))"],
            asserts_end=["implies(_k <= len(S0) and _k >= 1, S0[len(S0) - _k:][1:] == S0[len(S0) - (_k - 1):])",
                         "implies(_k <= len(S0) and _k >= 1, S0[len(S0) - _k:][0] == S0[len(S0) - _k])"],
        ),
        1: dict(
            entry={"base": "iterable_object", "rp": "popped_items[::-1]"},
            inv=["iterable_object == base + rp[:_k]"],
        ),
    },
    hints=["unfold(revv(S0[len(S0):]))", "unfold(reads(ins0, top0, 0))", "unfold(after_reads(ins0, top0, 0))", "lemma_len_revv(popped_items)"],
    props=["C09", "C11", "C12"],
)

TOPINS = "[Scope(vals, c)]"
W.lemma(
    "input_stream_cycles",
    vars=dict(vals=SEQ(VAL), c=INT, k=INT, top=BOOL),
    requires=["len(vals) > 0", "k >= 0", "c >= 0"],
    goal=f"after_reads({TOPINS}, top, k) == [Scope(vals, c + k)] and len(reads({TOPINS}, top, k)) == k and implies(k > 0, reads({TOPINS}, top, k)[k - 1] == vals[(c + k - 1) % len(vals)])",
    ih=[dict(at=dict(k="k - 1"), measure="k", when="k > 0")],
    hints=[f"unfold(after_reads({TOPINS}, top, k))", f"unfold(reads({TOPINS}, top, k))"],
    fuel=0,
    props=["C11"],
    note="at top level (one scope) the k-th read, explicit (top=True) or implicit (top=False), delivers input number (cursor+k-1) mod n and advances the shared cursor by one",
)

W.lemma(
    "input_stream_empty_is_zero",
    vars=dict(c=INT, k=INT, top=BOOL, rest=SCOPES),
    requires=["k >= 0"],
    goal="after_reads([Scope([], c)], top, k) == [Scope([], c)] and len(reads([Scope([], c)], top, k)) == k and implies(k > 0, reads([Scope([], c)], top, k)[k - 1] == 0)",
    ih=[dict(at=dict(k="k - 1"), measure="k", when="k > 0")],
    hints=["unfold(after_reads([Scope([], c)], top, k))", "unfold(reads([Scope([], c)], top, k))"],
    fuel=0,
    props=["C11"],
    note="with no inputs every read yields 0 (stdin at EOF)",
)

W.lemma(
    "inner_scope_reads",
    vars=dict(outer=SCOPES, args=SEQ(VAL), c=INT),
    requires=["len(outer) >= 1", "len(args) > 0", "c >= 0"],
    goal="gi_val(outer + [Scope(args, c)], False) == args[c % len(args)] and gi_next(outer + [Scope(args, c)], False) == outer + [Scope(args, c + 1)] "
         "and gi_val(outer + [Scope(args, c)], True) == gi_val(outer, True) and gi_next(outer + [Scope(args, c)], True) == gi_next(outer, True) + [Scope(args, c)]",
    props=["C11"],
    note="inside a lambda / function scope implicit reads cycle over that call's arguments; explicit reads (use_top_input) still take the program's inputs and leave the inner scope alone",
)


W.lemma("lemma_len_reads", vars=dict(ins=SCOPES, top=BOOL, n=INT), requires=["n >= 0"], goal="len(reads(ins, top, n)) == n",
        ih=[dict(at=dict(n="n - 1"), measure="n", when="n > 0")], hints=["unfold(reads(ins, top, n))"], fuel=0, props=["C09", "C11", "C12"])
W.lemma("lemma_len_revv", vars=dict(s=SEQ(VAL)), goal="len(revv(s)) == len(s)",
        ih=[dict(at=dict(s="s[1:]"), measure="len(s)", when="len(s) > 0")], hints=["unfold(revv(s))"], fuel=0, props=["C09", "C11", "C12"])
