"""C08: elements.vectorise and vy_zip act index-wise."""
from pyvc.sym import INT, BOOL, STR, CHAR, VAL, SEQ
from pyvc.engine import UFn, Builtin
from pyvc.world import ListOf
from pyvc.templates import VUNLIST
from pyvc.native import implies, forall_int, exists_int  # noqa
from . import W
from .inputs import ctx_spec
from . import inputs  # noqa

from pyvc.templates import uf
from pyvc.sym import VAL_SORT

AP1 = UFn("app_safe_apply", [VAL, VAL], VAL, note="safe_apply(f, x): the element applied to one item")
AP2 = UFn("app_safe_apply", [VAL, VAL, VAL], VAL, note="safe_apply(f, x, y)")
# the same uninterpreted symbols the executor uses for calls of safe_apply without a contract
AP1.z = uf("app_safe_apply", [VAL_SORT] * 2, VAL_SORT)
AP2.z = uf("app_safe_apply", [VAL_SORT] * 3, VAL_SORT)
UNLIST = UFn("vunlist_clause", [VAL], SEQ(VAL))
W.clause_globals.update(ap1=AP1, ap2=AP2)


class _ItemsOf(UFn):
    """clause function items(v): the items a list value enumerates"""

    def __init__(self):
        self.name = "items"

    def apply(self, ex, args, kwargs):
        from pyvc.sym import SV

        v = ex.to_val(args[0]) if hasattr(ex, "to_val") else args[0]
        return SV(VUNLIST(v.z), SEQ(VAL))


W.clause_globals["items"] = _ItemsOf()


@W.spec([VAL, SEQ(VAL), VAL], SEQ(VAL))
def map_ls(f, xs, y):
    """[f(x, y) for x in xs]"""
    return [] if len(xs) == 0 else map_ls(f, xs[:-1], y) + [ap2(f, xs[-1], y)]


@W.spec([VAL, VAL, SEQ(VAL)], SEQ(VAL))
def map_sl(f, x, ys):
    """[f(x, y) for y in ys]"""
    return [] if len(ys) == 0 else map_sl(f, x, ys[:-1]) + [ap2(f, x, ys[-1])]


@W.spec([VAL, SEQ(VAL)], SEQ(VAL))
def map_l(f, xs):
    return [] if len(xs) == 0 else map_l(f, xs[:-1]) + [ap1(f, xs[-1])]


def _prim_setup(shapes):
    """primitive_type by the declared shape of the argument (a list parameter is a list, a Val parameter a scalar)"""

    class Prim(UFn):
        def __init__(self):
            self.name = "primitive_type"

        def apply(self, ex, args, kwargs):
            from pyvc.state import Ref

            (v,) = args
            return Builtin("list") if isinstance(v, Ref) else "scalar"

    class Iterable(UFn):
        def __init__(self):
            self.name = "iterable"

        def apply(self, ex, args, kwargs):
            return args[0]  # iterable(x) is x itself for lists (helpers.iterable, last branch)

    def setup(ex, fr):
        ex.w.val_never_none = True
        fr.env["primitive_type"] = Prim()
        fr.env["iterable"] = Iterable()

    return setup


COMMON = dict(executor="template", fuel=0, frame_check=False, may_raise=True, props=["C08"])
V = "vyxal/elements.py::vectorise"


def case(tag, params, ensures, hint, note):
    W.contract(f"{V}#{tag}", params=dict(function=VAL, **params, explicit=("const", False), ctx=VAL), result=VAL, setup=_prim_setup(tag),
               ensures=ensures, hints=[hint] if hint else [], note=note, **COMMON)


def comp_lemma(name, comp, spec_call, vars, ind_var, needs):
    W.lemma(name, vars=vars, goal=f"{comp} == {spec_call}",
            ih=[dict(at={ind_var: f"{ind_var}[:-1]"}, measure=f"len({ind_var})", when=f"len({ind_var}) > 0")],
            hints=[f"unfold({comp})", f"unfold({spec_call})"], needs=[needs], fuel=0, props=["C08"], executor="template",
            note="the generator expression of this branch, turned mechanically into a recursive function, is the spec map")


case("ls", dict(lhs=ListOf(VAL), rhs=VAL, other=("const", None)), ["items(result) == map_ls(function, lhs, rhs)"], "comp_ls(lhs, function, rhs, ctx)", "shape (list, scalar): the scalar is paired with every item")
comp_lemma("comp_ls", "comp_2709a7e4(xs, f, y, c)", "map_ls(f, xs, y)", dict(xs=SEQ(VAL), f=VAL, y=VAL, c=VAL), "xs", f"{V}#ls")
case("sl", dict(lhs=VAL, rhs=ListOf(VAL), other=("const", None)), ["items(result) == map_sl(function, lhs, rhs)"], "comp_sl(rhs, function, lhs, ctx)", "shape (scalar, list)")
comp_lemma("comp_sl", "comp_3aff2f39(ys, f, x, c)", "map_sl(f, x, ys)", dict(ys=SEQ(VAL), f=VAL, x=VAL, c=VAL), "ys", f"{V}#sl")
case("l", dict(lhs=ListOf(VAL), rhs=("const", None), other=("const", None)), ["items(result) == map_l(function, lhs)"], "comp_l(lhs, function, ctx)", "shape (list): monadic elements")
comp_lemma("comp_l", "comp_00a80bdd(xs, f, c)", "map_l(f, xs)", dict(xs=SEQ(VAL), f=VAL, c=VAL), "xs", f"{V}#l")


# ---- list x list: zip with zero fill, then pairwise application
class _Pair(UFn):
    """clause function pair(x, y): the two-item list value [x, y]"""

    def __init__(self):
        self.name = "pair"

    def apply(self, ex, args, kwargs):
        from pyvc.sym import SV, lift, VLIST
        import z3

        a, b = [lift(ex.to_sv(v, VAL), VAL) for v in args]
        s = z3.Concat(z3.Unit(a.z), z3.Unit(b.z))
        ex.p.assume(VUNLIST(VLIST(s)) == s)
        return SV(VLIST(s), VAL)


W.clause_globals["pair"] = _Pair()


@W.spec([SEQ(VAL), SEQ(VAL)], SEQ(VAL))
def zf(a, b):
    """zip with zero fill: position by position, the shorter list continued with 0"""
    return [] if len(a) == 0 and len(b) == 0 else [pair(a[0] if len(a) > 0 else 0, b[0] if len(b) > 0 else 0)] + zf(a[1:], b[1:])


@W.spec([VAL, SEQ(VAL)], SEQ(VAL))
def map_pairs(f, ps):
    return [] if len(ps) == 0 else map_pairs(f, ps[:-1]) + [ap2(f, items(ps[-1])[0], items(ps[-1])[1])]


REML = "it_src(left)[it_pos(left):]"
REMR = "it_src(right)[it_pos(right):]"
W.contract(
    "vyxal/elements.py::vy_zip",
    params=dict(lhs=ListOf(VAL), rhs=ListOf(VAL), ctx=VAL), result=VAL, yields=VAL, setup=_prim_setup("zip"),
    ensures=["items(result) == zf(lhs, rhs)"],
    loops={0: dict(inv=[f"_yielded + zf({REML}, {REMR}) == zf(lhs, rhs)"], hints=[f"unfold(zf({REML}, {REMR}))"])},
    hints=[],
    note="shape (list, list)",
    **COMMON,
)

case("ll", dict(lhs=ListOf(VAL), rhs=ListOf(VAL), other=("const", None)), ["items(result) == map_pairs(function, zf(lhs, rhs))"], "comp_ll(zf(lhs, rhs), function, ctx)", "shape (list, list): items paired position by position, zero fill")
comp_lemma("comp_ll", "comp_7309e79c(ps, f, c)", "map_pairs(f, ps)", dict(ps=SEQ(VAL), f=VAL, c=VAL), "ps", f"{V}#ll")
