"""vyxal/parse.py (C03, C04, C18)"""
from pyvc.sym import INT, BOOL, STR, CHAR, VAL, SEQ
from pyvc.world import ListOf
from . import W
from .lexspec import TOKEN, BRANCHES
from . import lexspec  # noqa

GB = "gb_branches(ts0, bs0, [[]])"
W.contract(
    "vyxal/parse.py::_get_branches",
    params=dict(tokens=ListOf(TOKEN), bracket_stack=ListOf(CHAR)),
    result=ListOf(SEQ(TOKEN)),
    lets={"ts0": "tokens", "bs0": "bracket_stack"},
    requires=["toks_ok(tokens)"],
    ensures=[f"result == {GB}", "tokens == gb_rest(ts0, bs0)", "bracket_stack == gb_stack(ts0, bs0)"],
    modifies=["tokens", "bracket_stack"],
    witness=dict(tokens=[], bracket_stack=[")"]),
    fuel=0,
    semantic_prune=True,
    loops={0: dict(
        types={"branches": BRANCHES},
        inv=[
            "len(branches) >= 1",
            "toks_ok(tokens)",
            f"{GB} == gb_branches(tokens, bracket_stack, branches)",
            "gb_rest(ts0, bs0) == gb_rest(tokens, bracket_stack)",
            "gb_stack(ts0, bs0) == gb_stack(tokens, bracket_stack)",
        ],
        hints=["unfold(toks_ok(tokens))"],
        pre=["tokens", "bracket_stack", "branches"],
        hints_end=["unfold(gb_branches(tokens0, bracket_stack0, branches0))", "unfold(gb_rest(tokens0, bracket_stack0))", "unfold(gb_stack(tokens0, bracket_stack0))"],
        hints_exit=["unfold(gb_branches(tokens, bracket_stack, branches))", "unfold(gb_rest(tokens, bracket_stack))", "unfold(gb_stack(tokens, bracket_stack))"],
    )},
    props=["C03", "C04"],
)

# ---- C04: feeding the matching closers of every open structure changes nothing but
# appending the inner closers to the last branch; at end of input the loop stops in the same state
W.lemma(
    "closing_run",
    vars=dict(bs=STR, br=BRANCHES),
    requires=["len(bs) >= 1", "len(br) >= 1", "all_closing(bs)"],
    goal="gb_branches(closers(bs), bs, br) == br[:-1] + [br[-1] + closers(bs)[:-1]] and len(gb_rest(closers(bs), bs)) == 0 and len(gb_stack(closers(bs), bs)) == 0",
    ih=[dict(at=dict(bs="bs[:-1]", br="push_last(br, Token(TokenType.GENERAL, bs[-1]))"), measure="len(bs)", when="len(bs) > 1")],
    hints=["unfold(all_closing(bs))", "unfold(closers(bs))", "unfold(closers(bs[:-1]))", "unfold(gb_branches(closers(bs), bs, br))", "unfold(gb_rest(closers(bs), bs))", "unfold(gb_stack(closers(bs), bs))",
           "unfold(gb_branches(closers(bs)[1:], bs[:-1], br))", "unfold(gb_rest(closers(bs)[1:], bs[:-1]))", "unfold(gb_stack(closers(bs)[1:], bs[:-1]))",
           "closers(bs)[1:] == closers(bs[:-1])"],
    fuel=0,
    props=["C04"],
    note="closed run: reading rev(bracket_stack) as closers ends with an empty stack, no tokens left, and the inner closers appended to the last branch; the truncated run stops at (br, bs) with no tokens left (gb on [] is the identity)",
)

W.lemma(
    "truncated_run",
    vars=dict(bs=STR, br=BRANCHES),
    goal="gb_branches([], bs, br) == br and len(gb_rest([], bs)) == 0",
    hints=["unfold(gb_branches([], bs, br))", "unfold(gb_rest([], bs))"],
    fuel=0,
    props=["C04"],
)

# ---- C03: the tests of parse()'s dispatch loop do not look at the payload of literal tokens
from vyxal.lexer import TokenType as _TT
from pyvc.dispatch import dispatch_obligations

LIT_KINDS = [_TT.STRING, _TT.CHARACTER, _TT.COMPRESSED_NUMBER, _TT.COMPRESSED_STRING, _TT.CODEPAGE_NUMBER]


def _parse_extra(ex, path, rep, fn, loop, tests, kind, v1, f1, ev, ctx_z):
    """C04 top-level-closer: a GENERAL closing character met by parse()'s own loop reaches
    the `continue` branch (it is ignored)"""
    import ast, z3
    from pyvc.state import Obligation
    from pyvc.sym import enum_index
    from .lexspec import CLOSING

    target = None
    for test, ctx, ifnode in tests:
        if len(ifnode.body) == 1 and isinstance(ifnode.body[0], ast.Continue):
            target = (test, ctx, ifnode)
    if target is None:
        rep.obligations.append(Obligation("parse/top-level-closer", "post", [], z3.BoolVal(False), where="no `continue` branch in parse's dispatch chain"))
        return
    test, ctx, ifnode = target
    pre = [kind.z == enum_index(_TT.GENERAL), z3.Length(v1.z) == 1, z3.Contains(z3.StringVal(CLOSING), v1.z)]
    rep.obligations.append(Obligation("parse/top-level-closer", "post", list(path.pc) + pre, z3.And(ctx_z(ctx, f1), ev(test, f1)), where=f"{fn.key}:{test.lineno}"))


W.analysis(
    "parse#dispatch",
    lambda world: dispatch_obligations(world, "vyxal/parse.py::parse", 0, "head", TOKEN, {}, LIT_KINDS, "parse", extra=_parse_extra),
    props=["C03", "C04"],
)
