"""C14, generator level: between two yields a transformation consumes a bounded number of source items.

Model: the generator is run to completion with the ghost `_yielded`; inside `for item in source` the number
of source items consumed when iteration _k runs is _k + 1 (that iteration pulls lazily is the accessor-layer
result of C13 / C14: LazyList.__iter__ pulls max(0, j+1-cached) items for item j).  The obligation at every
yield point is  consumed <= a * yielded + b."""
import types

from pyvc.sym import INT, BOOL, STR, CHAR, VAL, SEQ
from pyvc.engine import UFn, Builtin
from pyvc.world import ListOf
from . import W
from .vectorise import _prim_setup, COMMON as _VC
from . import vectorise, folds  # noqa
from .folds import folds as _folds, scans as _scans  # noqa

COMMON = dict(executor="template", fuel=0, frame_check=False, may_raise=True, props=["C14"])


def _setup_map(ex, fr):
    _prim_setup("map")(ex, fr)

    class VT(UFn):
        def __init__(self):
            self.name = "vy_type"

        def apply(self, ex, args, kwargs):
            return (Builtin("list"), types.FunctionType)

    fr.env["vy_type"] = VT()


W.contract(
    "vyxal/elements.py::vy_map#lazy",
    params=dict(lhs=ListOf(VAL), rhs=VAL, ctx=VAL), result=VAL, yields=VAL, setup=_setup_map,
    at_yield=["_k + 1 <= len(_yielded)"],
    loops={0: dict(inv=["len(_yielded) == _k"])},
    ensures=["len(items(result)) == len(lhs)"],
    note="map: item j of the result needs j+1 source items",
    **COMMON,
)

W.contract(
    "vyxal/elements.py::deltas#lazy",
    params=dict(lhs=ListOf(VAL), ctx=VAL), result=VAL, yields=VAL, setup=_prim_setup("deltas"),
    requires=["len(lhs) >= 1"],
    at_yield=["_k + 1 <= len(_yielded) + 1"],
    loops={0: dict(peel=1, inv=["_k >= 1", "len(_yielded) == _k - 1"])},
    ensures=["len(items(result)) == len(lhs) - 1"],
    note="deltas: item j needs j+2 source items",
    **COMMON,
)

W.contract(
    "vyxal/helpers.py::prefixes#lazy",
    params=dict(lhs=ListOf(VAL), ctx=VAL), result=VAL, yields=VAL, setup=_prim_setup("prefixes"),
    at_yield=["_k + 1 <= len(_yielded)"],
    loops={0: dict(inv=["len(_yielded) == _k"], types={"temp": SEQ(VAL)})},
    ensures=["len(items(result)) == len(lhs)"],
    note="prefixes: prefix j needs j+1 source items",
    **COMMON,
)

W.contract(
    "vyxal/helpers.py::scanl#lazy",
    params=dict(function=VAL, vector=ListOf(VAL), ctx=VAL), result=VAL, yields=VAL, setup=_prim_setup("scan"),
    requires=["len(vector) >= 1"],
    at_yield=["_k + 1 <= len(_yielded) + 1"],
    loops={0: dict(peel=1, inv=["_k >= 1", "len(_yielded) == _k - 1"])},
    ensures=["len(items(result)) == len(vector)"],
    note="cumulative reduction: item j needs j+2 source items (one look-ahead)",
    **COMMON,
)

W.contract(
    "vyxal/elements.py::vy_zip#lazy",
    params=dict(lhs=ListOf(VAL), rhs=ListOf(VAL), ctx=VAL), result=VAL, yields=VAL, setup=_prim_setup("zip"),
    at_yield=["it_pos(left) <= len(_yielded)", "it_pos(right) <= len(_yielded)"],
    loops={0: dict(inv=["it_pos(left) <= len(_yielded)", "it_pos(right) <= len(_yielded)"])},
    ensures=["len(items(result)) >= len(lhs)", "len(items(result)) >= len(rhs)"],
    note="zip: pair j needs at most j+1 items of either side",
    **COMMON,
)


# ---------------------------------------------------------------- the same generators against their defining recursion (C16)
from pyvc.templates import uf  # noqa: E402
from pyvc.sym import VAL_SORT  # noqa: E402

SUB = UFn("app_subtract", [VAL, VAL], VAL, note="subtract(a, b): the element applied to two items")
SUB.z = uf("app_subtract", [VAL_SORT] * 2, VAL_SORT)  # the symbol the executor uses for the uncontracted call
W.clause_globals.update(sub2=SUB)


@W.spec([SEQ(VAL)], SEQ(VAL))
def dl(v):
    """forward differences: [v[1]-v[0], v[2]-v[1], ...]"""
    return [] if len(v) <= 1 else dl(v[:-1]) + [sub2(v[-1], v[-2])]


FCOMMON = dict(executor="template", fuel=0, frame_check=False, may_raise=True, props=["C16"])
W.contract(
    "vyxal/elements.py::deltas#law",
    params=dict(lhs=ListOf(VAL), ctx=VAL), result=VAL, yields=VAL, setup=_prim_setup("deltas"),
    requires=["len(lhs) >= 1"],
    ensures=["items(result) == dl(lhs)"],
    loops={0: dict(peel=1, inv=["_k >= 1", "prev == lhs[_k - 1]", "_yielded == dl(lhs[:_k])"],
                   hints_init=["unfold(dl(lhs[:1]))"],
                   hints_end=["unfold(dl(lhs[:_k]))"],
                   asserts_end=["lhs[:_k][:-1] == lhs[:_k - 1]", "lhs[:_k][-1] == lhs[_k - 1]", "lhs[:_k][-2] == lhs[_k - 2] or _k < 2"])},
    asserts=["lhs[:len(lhs)] == lhs"],
    note="deltas: item j is subtract(lhs[j+1], lhs[j])",
    **FCOMMON,
)

W.contract(
    "vyxal/elements.py::vy_map#law",
    params=dict(lhs=ListOf(VAL), rhs=VAL, ctx=VAL), result=VAL, yields=VAL, setup=_setup_map,
    ensures=["items(result) == map_l(rhs, lhs)"],
    loops={0: dict(inv=["_yielded == map_l(rhs, lhs[:_k])"],
                   hints_init=["unfold(map_l(rhs, lhs[:0]))"],
                   hints_end=["unfold(map_l(rhs, lhs[:_k]))"],
                   asserts_end=["lhs[:_k][:-1] == lhs[:_k - 1]", "lhs[:_k][-1] == lhs[_k - 1]"])},
    asserts=["lhs[:len(lhs)] == lhs"],
    note="map: item j is the function applied to lhs[j]",
    **FCOMMON,
)


class _ListVal(UFn):
    """clause function listval(s): the list value whose items are s"""

    def __init__(self):
        self.name = "listval"

    def apply(self, ex, args, kwargs):
        return ex.to_val(ex.to_sv(args[0], SEQ(VAL)))


DC = UFn("app_deep_copy", [VAL], VAL, note="deep_copy(x): a copy of one item")
DC.z = uf("app_deep_copy", [VAL_SORT], VAL_SORT)
W.clause_globals.update(listval=_ListVal(), dc1=DC)


@W.spec([SEQ(VAL)], SEQ(VAL))
def mapdc(v):
    return [] if len(v) == 0 else mapdc(v[:-1]) + [dc1(v[-1])]


@W.spec([SEQ(VAL)], SEQ(VAL))
def pf(v):
    """the non-empty prefixes in order of length, each a list of copies of its items"""
    return [] if len(v) == 0 else pf(v[:-1]) + [listval(mapdc(v))]


W.contract(
    "vyxal/helpers.py::prefixes#law",
    params=dict(lhs=ListOf(VAL), ctx=VAL), result=VAL, yields=VAL, setup=_prim_setup("prefixes"),
    ensures=["items(result) == pf(lhs)"],
    loops={0: dict(inv=["temp == mapdc(lhs[:_k])", "_yielded == pf(lhs[:_k])"], types={"temp": SEQ(VAL)},
                   hints_init=["unfold(pf(lhs[:0]))", "unfold(mapdc(lhs[:0]))"],
                   hints_end=["unfold(pf(lhs[:_k]))", "unfold(mapdc(lhs[:_k]))"],
                   asserts_end=["lhs[:_k][:-1] == lhs[:_k - 1]", "lhs[:_k][-1] == lhs[_k - 1]"])},
    asserts=["lhs[:len(lhs)] == lhs"],
    note="prefixes: item j is the list of (copies of) lhs[0..j]; assumes the consumer snapshots a yielded list at the yield (LazyList.__next__ -> vyxalify copies lists), since the generator yields the same growing list object",
    **FCOMMON,
)


@W.spec([SEQ(VAL)], SEQ(VAL))
def uq(v):
    """first occurrences, in order"""
    return [] if len(v) == 0 else (uq(v[:-1]) + [v[-1]] if v[-1] not in v[:-1] else uq(v[:-1]))


W.lemma(
    "uq_has_the_same_members", vars=dict(v=SEQ(VAL), x=VAL),
    goal="(x in uq(v)) == (x in v)",
    ih=[dict(at=dict(v="v[:-1]"), measure="len(v)", when="len(v) > 0")],
    hints=["unfold(uq(v))"], asserts=["len(v) == 0 or v == v[:-1] + [v[-1]]"],
    fuel=0, props=["C16"], executor="template",
    note="uniquify neither drops nor invents a value",
)

W.contract(
    "vyxal/elements.py::uniquify#law",
    params=dict(lhs=ListOf(VAL), ctx=VAL), result=VAL, yields=VAL, setup=_prim_setup("uniquify"),
    ensures=["items(result) == uq(lhs)"],
    loops={1: dict(inv=["seen == uq(t[:_k])", "_yielded == uq(t[:_k])", "t == lhs"], types={"seen": SEQ(VAL)},
                   hints_init=["unfold(uq(t[:0]))"],
                   hints_end=["unfold(uq(t[:_k]))", "uq_has_the_same_members(t[:_k - 1], t[_k - 1])"],
                   asserts_end=["t[:_k][:-1] == t[:_k - 1]", "t[:_k][-1] == t[_k - 1]"])},
    asserts=["lhs[:len(lhs)] == lhs"],
    note="uniquify (list branch): first occurrences in order; `in` on a list of values is read as membership up to equality of values",
    **FCOMMON,
)


def _setup_with_fn(shape, **names):
    """bind clause names to the value the executor gives a module-level function passed as an argument"""
    import ast as _ast

    base = _prim_setup(shape)

    def setup(ex, fr):
        base(ex, fr)
        for clause_name, global_name in names.items():
            fr.env[clause_name] = ex.to_val(ex.eval(_ast.parse(global_name, mode="eval").body, fr))

    return setup


W.contract(
    "vyxal/elements.py::vy_sum#law",
    params=dict(lhs=ListOf(VAL), ctx=VAL), result=VAL, setup=_setup_with_fn("sum", the_add="add"),
    requires=["len(lhs) >= 1"],
    ensures=["result == folds(the_add, lhs)"],
    note="sum of a non-empty list is the left fold of the element `add` (wrapper obligation over foldl's contract)",
    **FCOMMON,
)

W.contract(
    "vyxal/elements.py::cumulative_sum#law",
    params=dict(lhs=ListOf(VAL), ctx=VAL), result=VAL, setup=_setup_with_fn("cumsum", the_add="add"),
    requires=["len(lhs) >= 1"],
    ensures=["items(result) == scans(the_add, lhs)"],
    note="cumulative sums are the left folds of the non-empty prefixes (wrapper obligation over scanl's contract)",
    **FCOMMON,
)


@W.spec([SEQ(VAL), SEQ(VAL)], SEQ(VAL))
def il(a, b):
    """interleave: a0 b0 a1 b1 ..., then the rest of the longer one"""
    return b if len(a) == 0 else [a[0]] + il(b, a[1:])


_RL = "it_src(lhs_iter)[it_pos(lhs_iter):]"
_RR = "it_src(rhs_iter)[it_pos(rhs_iter):]"
W.contract(
    "vyxal/elements.py::interleave#law",
    params=dict(lhs=ListOf(VAL), rhs=ListOf(VAL), ctx=VAL), result=VAL, yields=VAL, setup=_prim_setup("interleave"),
    ensures=["items(result) == il(lhs, rhs)"],
    at_yield=["it_pos(lhs_iter) <= len(_yielded) or it_pos(rhs_iter) >= len(rhs)", "it_pos(rhs_iter) <= len(_yielded) or it_pos(lhs_iter) >= len(lhs)"],
    loops={0: dict(inv=[f"_yielded + il({_RL}, {_RR}) == il(lhs, rhs)", "it_src(lhs_iter) == lhs", "it_src(rhs_iter) == rhs",
                        "it_pos(lhs_iter) + it_pos(rhs_iter) == len(_yielded)", "it_pos(lhs_iter) == it_pos(rhs_iter)"],
                   hints=[f"unfold(il({_RL}, {_RR}))", f"unfold(il({_RR}, {_RL}[1:]))", f"unfold(il({_RL}[1:], {_RR}))"])},
    hints=[],
    note="interleave (list, list): alternate items, then the rest of the longer list; while both sides last, item j needs at most j+1 items of either side",
    props=["C16", "C14"], **{k: v for k, v in FCOMMON.items() if k != "props"},
)
