"""C14, generator level: between two yields a transformation consumes a bounded number of source items.

Model: the generator is run to completion with the ghost `_yielded`; inside `for item in source` the number
of source items consumed when iteration _k runs is _k + 1 (that iteration pulls lazily is the accessor-layer
result of C13 / C14: LazyList.__iter__ pulls max(0, j+1-cached) items for item j).  The obligation at every
yield point is  consumed <= a * yielded + b."""
import types

from pyvc.sym import INT, BOOL, STR, CHAR, VAL, SEQ
from pyvc.engine import UFn, Builtin
from pyvc.world import ListOf
from . import W
from .vectorise import _prim_setup, COMMON as _VC
from . import vectorise, folds  # noqa

COMMON = dict(executor="template", fuel=0, frame_check=False, may_raise=True, props=["C14"])


def _setup_map(ex, fr):
    _prim_setup("map")(ex, fr)

    class VT(UFn):
        def __init__(self):
            self.name = "vy_type"

        def apply(self, ex, args, kwargs):
            return (Builtin("list"), types.FunctionType)

    fr.env["vy_type"] = VT()


W.contract(
    "vyxal/elements.py::vy_map#lazy",
    params=dict(lhs=ListOf(VAL), rhs=VAL, ctx=VAL), result=VAL, yields=VAL, setup=_setup_map,
    at_yield=["_k + 1 <= len(_yielded)"],
    loops={0: dict(inv=["len(_yielded) == _k"])},
    ensures=["len(items(result)) == len(lhs)"],
    note="map: item j of the result needs j+1 source items",
    **COMMON,
)

W.contract(
    "vyxal/elements.py::deltas#lazy",
    params=dict(lhs=ListOf(VAL), ctx=VAL), result=VAL, yields=VAL, setup=_prim_setup("deltas"),
    requires=["len(lhs) >= 1"],
    at_yield=["_k + 1 <= len(_yielded) + 1"],
    loops={0: dict(peel=1, inv=["_k >= 1", "len(_yielded) == _k - 1"])},
    ensures=["len(items(result)) == len(lhs) - 1"],
    note="deltas: item j needs j+2 source items",
    **COMMON,
)

W.contract(
    "vyxal/helpers.py::prefixes#lazy",
    params=dict(lhs=ListOf(VAL), ctx=VAL), result=VAL, yields=VAL, setup=_prim_setup("prefixes"),
    at_yield=["_k + 1 <= len(_yielded)"],
    loops={0: dict(inv=["len(_yielded) == _k"], types={"temp": SEQ(VAL)})},
    ensures=["len(items(result)) == len(lhs)"],
    note="prefixes: prefix j needs j+1 source items",
    **COMMON,
)

W.contract(
    "vyxal/helpers.py::scanl#lazy",
    params=dict(function=VAL, vector=ListOf(VAL), ctx=VAL), result=VAL, yields=VAL, setup=_prim_setup("scan"),
    requires=["len(vector) >= 1"],
    at_yield=["_k + 1 <= len(_yielded) + 1"],
    loops={0: dict(peel=1, inv=["_k >= 1", "len(_yielded) == _k - 1"])},
    ensures=["len(items(result)) == len(vector)"],
    note="cumulative reduction: item j needs j+2 source items (one look-ahead)",
    **COMMON,
)

W.contract(
    "vyxal/elements.py::vy_zip#lazy",
    params=dict(lhs=ListOf(VAL), rhs=ListOf(VAL), ctx=VAL), result=VAL, yields=VAL, setup=_prim_setup("zip"),
    at_yield=["it_pos(left) <= len(_yielded)", "it_pos(right) <= len(_yielded)"],
    loops={0: dict(inv=["it_pos(left) <= len(_yielded)", "it_pos(right) <= len(_yielded)"])},
    ensures=["len(items(result)) >= len(lhs)", "len(items(result)) >= len(rhs)"],
    note="zip: pair j needs at most j+1 items of either side",
    **COMMON,
)
