"""Specification of the lexer (documents/specs/Lexer.md) as pure spec functions:
lex(s) is a left-to-right fold of lex_tokens / lex_rest over the program text."""
import string

from vyxal.lexer import Token, TokenType
from pyvc.sym import INT, BOOL, STR, CHAR, VAL, SEQ, REC, ENUM
from pyvc.engine import RecordCtor
from pyvc.native import implies, forall_int, exists_int  # noqa
from . import W

TOKEN = REC("Token", [("name", ENUM(TokenType)), ("value", STR)])
W.records["Token"] = RecordCtor(TOKEN, ["token_name", "token_value"])

DIGITS = string.digits + ".°"
LETTERS = string.ascii_letters + "_"


# ---- back-quoted strings: a backslash takes the next character with it
@W.spec([STR], INT)
def str_scan(r):
    """number of characters of r consumed by the body of a back-quoted string"""
    return 0 if len(r) == 0 or r[0] == "`" else ((1 if len(r) == 1 else 2 + str_scan(r[2:])) if r[0] == "\\" else 1 + str_scan(r[1:]))


@W.spec([STR], STR)
def str_val(r):
    """the token value of that body (a lone backslash at the very end is dropped)"""
    return "" if len(r) == 0 or r[0] == "`" else (("" if len(r) == 1 else r[:2] + str_val(r[2:])) if r[0] == "\\" else r[0] + str_val(r[1:]))


@W.spec([STR, STR], STR)
def until(r, h):
    """prefix of r before the first occurrence of the one-character delimiter h (all of r if absent)"""
    return r[: r.find(h)] if h in r else r


# ---- numbers
@W.spec([STR], BOOL)
def numok(v):
    """at most one degree sign, and at most one point on either side of it"""
    return v.count("°") < 2 and (v.count(".") < 2 if v.count("°") == 0 else (v[: v.find("°")].count(".") < 2 and v[v.find("°") + 1 :].count(".") < 2))


@W.spec([STR, STR], INT)
def num_len(v, r):
    """how many characters of r extend the number literal v"""
    return 0 if len(r) == 0 or not (r[0] in DIGITS) or not numok(v + r[0]) else 1 + num_len(v + r[0], r[1:])


@W.spec([STR], INT)
def span_letters(r):
    return 0 if len(r) == 0 or not (r[0] in LETTERS) else 1 + span_letters(r[1:])


@W.spec([STR, BOOL], INT)
def var_len(r, dg):
    return (1 if len(r) > 0 and r[0] in LETTERS else 0) if dg else span_letters(r)


@W.spec([STR], STR)
def after_line(r):
    return r[r.find("\n") + 1 :] if "\n" in r else ""


@W.spec([STR, STR, BOOL], SEQ(TOKEN))
def lex_tokens(h, r, dg):
    """tokens produced by one step of the lexer on head character h followed by r"""
    return (
        ([Token(TokenType.CHARACTER, r[0])] if len(r) > 0 else [])
        if h == "\\"
        else [Token(TokenType.STRING, str_val(r))]
        if h == "`"
        else [Token(TokenType.COMPRESSED_NUMBER, until(r, h))]
        if h == "»"
        else [Token(TokenType.COMPRESSED_STRING, until(r, h))]
        if h == "«"
        else [Token(TokenType.NUMBER, h if (h == "0" and not (len(r) > 0 and r[0] in "°.")) else h + r[: num_len(h, r)])]
        if h in DIGITS
        else [Token(TokenType.STRING, r[:2])]
        if h == "‛"
        else [Token(TokenType.VARIABLE_SET, r[: var_len(r, dg)])]
        if h == "→"
        else [Token(TokenType.VARIABLE_GET, r[: var_len(r, dg)])]
        if h == "←"
        else []
        if h == "#"
        else [Token(TokenType.GENERAL, h + r[0] if (len(r) > 0 and r[0] != "|") else h)]
        if h in "k∆øÞ¨"
        else ([Token(TokenType.CODEPAGE_NUMBER, r[0])] if len(r) > 0 else [])
        if h == "⁺"
        else [Token(TokenType.GENERAL, h)]
    )


@W.spec([STR, STR, BOOL], STR)
def lex_rest(h, r, dg):
    """what is left of the program text after that step"""
    return (
        r[1:]
        if h == "\\"
        else r[str_scan(r) + 1 :]
        if h == "`"
        else r[len(until(r, h)) + 1 :]
        if h == "»" or h == "«"
        else (r if (h == "0" and not (len(r) > 0 and r[0] in "°.")) else r[num_len(h, r) :])
        if h in DIGITS
        else r[2:]
        if h == "‛"
        else r[var_len(r, dg) :]
        if h == "→" or h == "←"
        else after_line(r)
        if h == "#"
        else (r[1:] if (len(r) > 0 and r[0] != "|") else r)
        if h in "k∆øÞ¨"
        else r[1:]
        if h == "⁺"
        else r
    )


@W.spec([STR, BOOL], SEQ(TOKEN))
def lex(s, dg):
    return [] if len(s) == 0 else lex_tokens(s[0], s[1:], dg) + lex(lex_rest(s[0], s[1:], dg), dg)
