"""Specification of the lexer (documents/specs/Lexer.md) as pure spec functions:
lex(s) is a left-to-right fold of lex_tokens / lex_rest over the program text."""
import string

from vyxal.lexer import Token, TokenType
from pyvc.sym import INT, BOOL, STR, CHAR, VAL, SEQ, REC, ENUM
from pyvc.engine import RecordCtor
from pyvc.native import implies, forall_int, exists_int  # noqa
from . import W

TOKEN = REC("Token", [("name", ENUM(TokenType)), ("value", STR)])
W.records["Token"] = RecordCtor(TOKEN, ["token_name", "token_value"])

DIGITS = string.digits + ".°"
LETTERS = string.ascii_letters + "_"


# ---- back-quoted strings: a backslash takes the next character with it
@W.spec([STR], INT)
def str_scan(r):
    """number of characters of r consumed by the body of a back-quoted string"""
    return 0 if len(r) == 0 or r[0] == "`" else ((1 if len(r) == 1 else 2 + str_scan(r[2:])) if r[0] == "\\" else 1 + str_scan(r[1:]))


@W.spec([STR], STR)
def str_val(r):
    """the token value of that body (a lone backslash at the very end is dropped)"""
    return "" if len(r) == 0 or r[0] == "`" else (("" if len(r) == 1 else r[:2] + str_val(r[2:])) if r[0] == "\\" else r[0] + str_val(r[1:]))


@W.spec([STR, STR], STR)
def until(r, h):
    """prefix of r before the first occurrence of the one-character delimiter h (all of r if absent)"""
    return r[: r.find(h)] if h in r else r


# ---- numbers
@W.spec([STR], BOOL)
def numok(v):
    """at most one degree sign, and at most one point on either side of it"""
    return v.count("°") < 2 and (v.count(".") < 2 if v.count("°") == 0 else (v[: v.find("°")].count(".") < 2 and v[v.find("°") + 1 :].count(".") < 2))


@W.spec([STR, STR], INT)
def num_len(v, r):
    """how many characters of r extend the number literal v"""
    return 0 if len(r) == 0 or not (r[0] in DIGITS) or not numok(v + r[0]) else 1 + num_len(v + r[0], r[1:])


@W.spec([STR], INT)
def span_letters(r):
    return 0 if len(r) == 0 or not (r[0] in LETTERS) else 1 + span_letters(r[1:])


@W.spec([STR, BOOL], INT)
def var_len(r, dg):
    return (1 if len(r) > 0 and r[0] in LETTERS else 0) if dg else span_letters(r)


@W.spec([STR], STR)
def after_line(r):
    return r[r.find("\n") + 1 :] if "\n" in r else ""


@W.spec([STR, STR, BOOL], SEQ(TOKEN))
def lex_tokens(h, r, dg):
    """tokens produced by one step of the lexer on head character h followed by r"""
    return (
        ([Token(TokenType.CHARACTER, r[0])] if len(r) > 0 else [])
        if h == "\\"
        else [Token(TokenType.STRING, str_val(r))]
        if h == "`"
        else [Token(TokenType.COMPRESSED_NUMBER, until(r, h))]
        if h == "»"
        else [Token(TokenType.COMPRESSED_STRING, until(r, h))]
        if h == "«"
        else [Token(TokenType.NUMBER, h if (h == "0" and not (len(r) > 0 and r[0] in "°.")) else h + r[: num_len(h, r)])]
        if h in DIGITS
        else [Token(TokenType.STRING, r[:2])]
        if h == "‛"
        else [Token(TokenType.VARIABLE_SET, r[: var_len(r, dg)])]
        if h == "→"
        else [Token(TokenType.VARIABLE_GET, r[: var_len(r, dg)])]
        if h == "←"
        else []
        if h == "#"
        else [Token(TokenType.GENERAL, h + r[0] if (len(r) > 0 and r[0] != "|") else h)]
        if h in "k∆øÞ¨"
        else ([Token(TokenType.CODEPAGE_NUMBER, r[0])] if len(r) > 0 else [])
        if h == "⁺"
        else [Token(TokenType.GENERAL, h)]
    )


@W.spec([STR, STR, BOOL], STR)
def lex_rest(h, r, dg):
    """what is left of the program text after that step"""
    return (
        r[1:]
        if h == "\\"
        else r[str_scan(r) + 1 :]
        if h == "`"
        else r[len(until(r, h)) + 1 :]
        if h == "»" or h == "«"
        else (r if (h == "0" and not (len(r) > 0 and r[0] in "°.")) else r[num_len(h, r) :])
        if h in DIGITS
        else r[2:]
        if h == "‛"
        else r[var_len(r, dg) :]
        if h == "→" or h == "←"
        else after_line(r)
        if h == "#"
        else (r[1:] if (len(r) > 0 and r[0] != "|") else r)
        if h in "k∆øÞ¨"
        else r[1:]
        if h == "⁺"
        else r
    )


@W.spec([STR, BOOL], SEQ(TOKEN))
def lex(s, dg):
    return [] if len(s) == 0 else lex_tokens(s[0], s[1:], dg) + lex(lex_rest(s[0], s[1:], dg), dg)


# ---------------------------------------------------------------- parser: branch collection
import vyxal.parse as _parse

OPENING = _parse.OPENING_CHARACTERS
CLOSING = _parse.CLOSING_CHARACTERS
BRANCHES = SEQ(SEQ(TOKEN))
W.clause_globals.update(OPENING=OPENING, CLOSING=CLOSING, DIGITS=DIGITS, LETTERS=LETTERS, TokenType=TokenType, Token=Token)


@W.spec([TOKEN], BOOL)
def tok_ok(t):
    """shape of the GENERAL tokens the lexer produces: one character, or a digraph"""
    return implies(t.name == TokenType.GENERAL, len(t.value) == 1 or (len(t.value) == 2 and t.value[0] in "k∆øÞ¨"))


@W.spec([SEQ(TOKEN)], BOOL)
def toks_ok(ts):
    return True if len(ts) == 0 else (tok_ok(ts[0]) and toks_ok(ts[1:]))


@W.spec([STR], STR)
def closer_of(c):
    """closing character of the structure opened by c"""
    return CLOSING[OPENING.find(c)]


@W.spec([TOKEN], BOOL)
def is_opener(t):
    return t.name == TokenType.GENERAL and len(t.value) > 0 and t.value in OPENING


@W.spec([TOKEN], BOOL)
def is_closer(t):
    return t.name == TokenType.GENERAL and len(t.value) > 0 and t.value in CLOSING


@W.spec([TOKEN], BOOL)
def is_bar(t):
    return t.name == TokenType.GENERAL and t.value == "|"


@W.spec([STR, TOKEN], STR)
def bs_step(bs, t):
    """bracket stack (a string of expected closers, innermost last) after reading token t"""
    return bs + closer_of(t.value) if is_opener(t) else (bs[:-1] if (not is_bar(t)) and is_closer(t) and t.value == bs[-1] else bs)


@W.spec([BRANCHES, TOKEN], BRANCHES)
def push_last(br, t):
    return br[:-1] + [br[-1] + [t]]


@W.spec([BRANCHES, STR, TOKEN], BRANCHES)
def br_step(br, bs, t):
    """branches after reading token t with bracket stack bs (before the step)"""
    return (
        push_last(br, t)
        if is_opener(t)
        else (br + [[]] if len(bs) == 1 else push_last(br, t))
        if is_bar(t)
        else ((push_last(br, t) if len(bs) > 1 else br) if t.value == bs[-1] else br)
        if is_closer(t)
        else push_last(br, t)
    )


@W.spec([SEQ(TOKEN), STR, BRANCHES], BRANCHES)
def gb_branches(ts, bs, br):
    """branches collected from ts while the bracket stack is non-empty"""
    return br if len(ts) == 0 or len(bs) == 0 else gb_branches(ts[1:], bs_step(bs, ts[0]), br_step(br, bs, ts[0]))


@W.spec([SEQ(TOKEN), STR], SEQ(TOKEN))
def gb_rest(ts, bs):
    """tokens left over after the structure is closed"""
    return ts if len(ts) == 0 or len(bs) == 0 else gb_rest(ts[1:], bs_step(bs, ts[0]))


@W.spec([SEQ(TOKEN), STR], STR)
def gb_stack(ts, bs):
    return bs if len(ts) == 0 or len(bs) == 0 else gb_stack(ts[1:], bs_step(bs, ts[0]))


@W.spec([STR], SEQ(TOKEN))
def closers(bs):
    """the closing tokens that close every structure of the bracket stack bs, innermost first"""
    return [] if len(bs) == 0 else [Token(TokenType.GENERAL, bs[-1])] + closers(bs[:-1])


@W.spec([STR], BOOL)
def all_closing(bs):
    return True if len(bs) == 0 else (bs[-1] in CLOSING and all_closing(bs[:-1]))


@W.spec([STR], BOOL)
def strbody(p):
    """payload language of a back-quoted string: no unescaped back-quote, no lone trailing backslash"""
    return True if len(p) == 0 else ((len(p) >= 2 and strbody(p[2:])) if p[0] == "\\" else (p[0] != "`" and strbody(p[1:])))


@W.spec([STR, STR], BOOL)
def only_chars(v, a):
    """every character of v is one of the characters of a (front recursion)"""
    return True if len(v) == 0 else (v[0] in a and only_chars(v[1:], a))
