"""Element / modifier / structure templates as code under contract (C09, C11, C12)."""
from __future__ import annotations

import ast
import z3

from pyvc.sym import INT, BOOL, STR, CHAR, VAL, SEQ
from pyvc.world import ListOf, ObjSpec, Contract
from pyvc.engine import RealFn
from pyvc.templates import TemplateExecutor, template_function, holes_in, Hole
from pyvc.verify import verify_function, FunctionReport
from . import W
from .inputs import ctx_spec, SCOPE, M, ITEMS
from . import inputs  # noqa

W.contract(
    "vyxal/helpers.py::primitive_type",
    params=dict(item=ListOf(VAL)), result=STR, ensures=["result != 'scalar'"], trusted=True,
    note="primitive_type of a list is the list type, which is not SCALAR_TYPE ('scalar'); the result is only ever compared with SCALAR_TYPE",
    props=["C09", "C11", "C12"],
)

W.contract(
    "vyxal/helpers.py::wrapify",
    params=dict(item=ListOf(VAL), count=INT, ctx=ctx_spec()),
    lets={"S0": "item", "ins0": "ctx.inputs", "top0": "ctx.use_top_input"},
    requires=["count >= 0", "len(ctx.inputs) >= 1"],
    result=ListOf(VAL),
    ensures=[
        f"implies(not ctx.retain_popped, item == S0[:len(S0) - {M}])",
        f"implies(ctx.retain_popped, item == S0[:len(S0) - {M}] + revv({ITEMS}))",
        f"ctx.inputs == after_reads(ins0, top0, count - {M})",
        "ctx.use_top_input == top0",
        f"implies(not ctx.reverse_flag or count == 1, result == {ITEMS})",
        f"implies(ctx.reverse_flag and count != 1, result == revv({ITEMS}))",
        "len(result) == count",
        "len(ctx.inputs) == len(ins0)",
    ],
    modifies=["item", "ctx.inputs", "ctx.use_top_input"],
    hints=["lemma_len_reads(ins0, top0, count - min(count, len(S0)))", "lemma_len_revv(S0[len(S0) - min(count, len(S0)):])", f"lemma_len_revv({ITEMS})"],
    note="wrapify with an explicit count (the only form the templates use)",
    props=["C09", "C11", "C12"],
)


def full_ctx():
    return ctx_spec(
        register=VAL, global_array=ListOf(VAL), ghost_variable=VAL, default_arity=INT, printed=BOOL, retain_popped=("const", False),
        number_as_range=BOOL, range_start=INT, range_end=INT, truthy_lists=BOOL, vyxal_lists=BOOL, print_decimals=BOOL, dictionary_compression=BOOL,
        variable_length_1=BOOL, online_output=VAL, last_popped=ListOf(VAL),
    )


def elements_globals():
    import vyxal.elements as el

    return el.__dict__


def register_template(name, text, contract_kw):
    """make the template text a function `template::<name>` of the world with the given contract"""
    key = f"template::{name}"
    fdef = template_function(text, "tpl")
    fn = RealFn(key, fdef, elements_globals())
    fn.relpath = "template"
    W.fn_index[key] = fn
    W.index_loops(fdef)
    W.contracts[key] = Contract(key, **contract_kw)
    return key


# ---------------------------------------------------------------- leaf templates (C09, C12)
WHOLE_STACK = {
    "W": "wrap: collects the whole stack", "^": "reverse stack", "!": "stack length (reads len(stack) only)", "„": "rotate stack left", "‟": "rotate stack right",
    "Ȯ": "over: copies the entry below the top", "†": "call: a called function receives the stack", "Ė": "vyxal exec: runs a program on the same stack", "¨ẇ": "wrap the top n entries",
}
DEPTHS = ["len(ctx.context_values) == len(cv0)", "len(ctx.inputs) == len(ins0)", "len(ctx.stacks) == len(st0)", "len(ctx.function_stack) == len(fs0)"]
BELOW = ["ctx.context_values[:len(cv0)] == cv0", "ctx.stacks[:len(st0)] == st0", "ctx.function_stack[:len(fs0)] == fs0"]
CTX_MODS = ["ctx.inputs", "ctx.use_top_input", "ctx.register", "ctx.global_array", "ctx.ghost_variable", "ctx.printed", "ctx.retain_popped", "ctx.context_values", "ctx.stacks", "ctx.function_stack", "ctx.last_popped"]


EXTRA = {
    # C11: the explicit input element reads the program's inputs (scope 0), shares their cursor, and restores the flag
    "?": (["stack == S0 + [gi_val(ins0, True)]", "ctx.inputs == gi_next(ins0, True)", "ctx.use_top_input == False"], ["C11-explicit-read-value", "C11-explicit-read-advances-shared-cursor", "C11-flag-reset"]),
}


def leaf_contract(arity, whole_stack=False, key=None):
    ens = []
    names = []
    if key in EXTRA:
        ens += EXTRA[key][0]
        names += EXTRA[key][1]
    ens.append("not ctx.retain_popped")
    names.append("C09-retain-flag-restored")
    if not whole_stack:
        ens += [f"len(stack) >= len(S0) - {arity}", f"stack[:len(S0) - {arity}] == S0[:len(S0) - {arity}]"]
        names += ["C09-no-overpop", "C09-prefix-untouched"]
    ens += DEPTHS + BELOW
    names += ["C12-context_values", "C12-inputs", "C12-stacks", "C12-function_stack", "C12-cv-below", "C12-stacks-below", "C12-fs-below"]
    return dict(
        params=dict(stack=ListOf(VAL), ctx=full_ctx()),
        lets={"S0": "stack", "cv0": "ctx.context_values", "ins0": "ctx.inputs", "st0": "ctx.stacks", "fs0": "ctx.function_stack"},
        requires=[f"len(stack) >= {max(arity, 0)}", "len(ctx.inputs) >= 1", "len(ctx.context_values) >= 1", "len(ctx.stacks) >= 1"],
        ensures=ens, ensures_names=names,
        modifies=["stack"] + CTX_MODS, frame_check=False, fuel=1, may_raise=True,
    )


class LeafExecutor(TemplateExecutor):
    """exceptions raised by an element (IndexError on an empty input list, ...) end the program;
    C09 / C12 speak about normal completion, so index / pop-from-empty obligations are not generated here"""

    def __init__(self, path, world, **kw):
        super().__init__(path, world, **kw)
        self.bounds_checks = False


def _template_sink(ex, name, args, node):
    return ex.opaque_call("sink_" + name, args, {})


def leaf_templates(world, which, lo, hi, only=None):
    """one obligation set per template of the live element / modifier table"""
    import vyxal.elements as el

    rep = FunctionReport(f"templates#{which}[{lo}:{hi}]" if only is None else f"templates#{which}{only}")
    rep.obligations, rep.paths = [], 0
    table = el.elements if which == "elements" else el.modifiers
    keys = sorted(table)[lo:hi] if only is None else [k for k in only if k in table]
    if only is not None and len(keys) != len(only):
        rep.error, rep.error_kind = f"elements {sorted(set(only) - set(keys))} are no longer in the table", "stale"
        return rep
    world.sink_handler = _template_sink
    errors = []
    for k in keys:
        text, arity = (table[k][0], table[k][1]) if which == "elements" else (table[k], 0)
        name = f"{which}[{k}]"
        try:
            ck = leaf_contract(arity, whole_stack=(k in WHOLE_STACK) or which == "modifiers", key=k if which == "elements" else None)
            if which == "modifiers":
                # modifier templates run with function_A / function_B / function_C bound to function values
                def setup(ex, fr):
                    from pyvc.sym import named

                    for nm in ("function_A", "function_B", "function_C"):
                        fr.env[nm] = named(nm, VAL)

                ck["setup"] = setup
            key = register_template(name, text, ck)
        except SyntaxError as e:
            errors.append(f"{name}: template does not parse: {e}")
            continue
        r = verify_function(world, key, executor_cls=LeafExecutor)
        rep.paths += r.paths
        for ob in r.obligations:
            if ob.kind == "cover":
                continue
            ob.meta["template"] = k
            rep.obligations.append(ob)
        if r.error:
            errors.append(f"{name}: {r.error}")
    if errors:
        rep.error, rep.error_kind = "; ".join(errors[:6]) + (f" (+{len(errors) - 6} more)" if len(errors) > 6 else ""), "subset"
    import hashlib

    rep.source_hash = hashlib.sha256(repr([(k, table[k]) for k in keys]).encode()).hexdigest()[:16]
    return rep


def _register_leaf_analyses():
    import vyxal.elements as el

    n = len(el.elements)
    step = 40
    for lo in range(0, n, step):
        W.analysis(f"templates#elements[{lo}:{lo + step}]", (lambda lo: lambda world: leaf_templates(world, "elements", lo, lo + step))(lo), props=["C09", "C12"])
    W.analysis("templates#modifiers", lambda world: leaf_templates(world, "modifiers", 0, 100), props=["C09", "C12"])
    W.analysis("templates#input-element", lambda world: leaf_templates(world, "elements", 0, 0, only=["?"]), props=["C11"])


_register_leaf_analyses()


# ---------------------------------------------------------------- structure templates with holes (C11, C12)
PROBES = [
    # (name, program) : each 70xx literal is a hole for a sub-program
    ("if", "[7001]"), ("if-else", "[7001|7002]"), ("if-chain", "[7001|7002|7003|7004]"),
    ("for", "(7001)"), ("for-named", "(i|7001)"), ("while", "{7001|7002}"), ("while-true", "{7001}"),
    ("lambda", "λ7001;"), ("lambda-arity", "λ2|7001;"), ("lambda-map", "ƛ7001;"), ("lambda-filter", "'7001;"), ("lambda-sort", "µ7001;"),
    ("list", "⟨7001|7002⟩"), ("function-def", "@f:a:2|7001;"), ("function-star", "@f:*|7001;"), ("function-call", "@f;"),
    ("mod-v", "v7001"), ("mod-&", "&7001"), ("mod-~", "~7001"), ("mod-ß", "ß7001"), ("mod-ƒ", "ƒ7001"), ("mod-ɖ", "ɖ7001"), ("mod-⁽", "⁽7001"),
    ("mod-₌", "₌7001 7002"), ("mod-‡", "‡7001 7002"), ("mod-₍", "₍7001 7002"), ("mod-≬", "≬7001 7002 7003"),
    # early exits
    ("for-break", "(7001X7002)"), ("for-continue", "(7001x7002)"), ("while-break", "{7001|7002X7003}"), ("while-continue", "{7001|7002x7003}"),
    ("lambda-break", "λ7001X7002;"), ("lambda-recurse", "λ7001x7002;"), ("function-break", "@f|7001X7002;"), ("function-recurse", "@f|7001x7002;"),
    ("for-if-break", "(7001[X]7002)"), ("for-list-break", "(⟨7001X⟩)"), ("lambda-if-break", "λ[7001X];"), ("map-break", "ƛ7001X;"),
    ("top-break", "7001X7002"), ("top-recurse", "7001x"),
    # (hole 7005 instead of 7001 where the first hole sits inside a loop: C11's own-scope obligation is tied to hole 7001 at the
    # head of a lambda body, and inside a loop the cursor may already have advanced)
    # early exits whose lowering depends on what encloses them two levels up: in the condition of a while loop nested in
    # another structure, and after a modifier (with its operand) inside a loop body inside a lambda
    ("for-while-cond-break", "(7001{7002X|7003})"), ("while-while-cond-break", "{7001|{7002X|7003}}"), ("lambda-while-cond-break", "λ{7005X|7002};"), ("for-while-cond-continue", "(7001{7002x|7003})"),
    ("for-mod-break", "(v7001 X7002)"), ("lambda-for-mod-break", "λ(⁽7001 7002X)7003;"), ("lambda-while-mod-break", "λ{7005|v7002 X};"), ("lambda-for-mod2-break", "λ(₌7001 7002 X)7003;"), ("lambda-mod-break", "λv7001 X7002;"), ("map-for-break", "ƛ(7002X)7003;"), ("map-while-continue", "ƛ{7005|7002x}7003;"),
]
LOOP_INV = dict(inv=DEPTHS + BELOW + ["len(ctx.inputs) >= 1"])


def _loop_inv(dcv, dins=0, dst=0, dfs=0):
    """loop invariant of a loop that runs at a known distance above the unit's entry depths: inside a lambda / function body
    all four bookkeeping lists are one deeper, inside an enclosing loop the context values are one deeper"""
    return dict(inv=[f"len(ctx.context_values) == len(cv0) + {dcv}", f"len(ctx.inputs) == len(ins0) + {dins}", f"len(ctx.stacks) == len(st0) + {dst}", f"len(ctx.function_stack) == len(fs0) + {dfs}"]
                + BELOW + ["len(ctx.inputs) >= 1"])


# probe -> unit kind -> loop ordinal -> invariant (default: LOOP_INV, the loop runs at the unit's entry depths)
NESTED_LOOPS = {
    "for-while-cond-break": {"top": {1: _loop_inv(1)}}, "for-while-cond-continue": {"top": {1: _loop_inv(1)}}, "while-while-cond-break": {"top": {1: _loop_inv(1)}},
    "lambda-while-cond-break": {"lambda": {0: _loop_inv(1, 1, 1, 1)}}, "lambda-for-mod-break": {"lambda": {0: _loop_inv(1, 1, 1, 1)}},
    "lambda-while-mod-break": {"lambda": {0: _loop_inv(1, 1, 1, 1)}}, "map-for-break": {"lambda": {0: _loop_inv(1, 1, 1, 1)}}, "map-while-continue": {"lambda": {0: _loop_inv(1, 1, 1, 1)}}, "lambda-for-mod2-break": {"lambda": {0: _loop_inv(1, 1, 1, 1)}},
}


def _hole(ex, fr, k):
    """induction hypothesis for a sub-program: any effect on the local stack and on variables, cursors
    may advance; the four bookkeeping lists come back as they were (C12), use_top_input restored"""
    import z3
    from pyvc.sym import fresh, SEQ, VAL
    from pyvc.state import ListCell
    from pyvc.engine import Ref

    ctx = fr.env["ctx"]
    cell = ex.p.cell(ctx)
    if k == 7001 and fr.fn_name.startswith(("_lambda", "VAR_")) and getattr(ex.w, "current_probe", "") not in ("lambda-if-break",):
        # C11: the innermost input scope of a lambda / function body is its own arguments, reversed, cursor 0
        ex.oblige("C11-own-scope", ex.eval_clause("len(ctx.inputs) == len(ins0) + 1 and ctx.inputs[-1] == Scope(revv(stack), 0)", fr), None, tag=f"[{fr.fn_name}]")
    st = fr.env.get("stack")
    if isinstance(st, Ref):
        ex.list_sv(st, SEQ(VAL))
        ex.havoc_heap(st, "stack")
    ins = cell.fields["inputs"]
    old_len = z3.Length(ex.list_sv(ins).z)
    ex.havoc_heap(ins, "ctx.inputs")
    ex.p.assume(z3.Length(ex.p.cell(ins).sv.z) == old_len)
    for f in ("register", "ghost_variable"):
        cell.fields[f] = fresh("ctx." + f, VAL)
    ex.havoc_heap(cell.fields["global_array"], "ctx.global_array")
    return None


W.hole_contract = _hole


class StructExecutor(LeafExecutor):
    def call_function(self, fn, args, kwargs, node, fr, **kw):
        # C11: a read from the body's own stack inside a lambda / function body (also in the lowered early exit)
        # happens while the body's own input scope is the innermost one
        if getattr(fn, "name", "") == "pop" and fr.fn_name.startswith(("_lambda", "VAR_")) and args and args[0] is fr.env.get("stack") and "ins0" in fr.env:
            self.oblige("C11-reads-in-own-scope", self.eval_clause("len(ctx.inputs) == len(ins0) + 1", fr), node, tag=f"[{fr.fn_name}]")
        # C11 / C09: the stack protocol functions must be handed the running program's context; a call that leaves
        # ctx out falls back to the module-level default context (no inputs, offline)
        if getattr(fn, "name", "") in ("pop", "wrapify", "get_input") and getattr(fn, "node", None) is not None and "ctx" in fr.env:
            names = [a.arg for a in fn.node.args.args]
            given = kwargs.get("ctx")
            if given is None and "ctx" in names and names.index("ctx") < len(args):
                given = args[names.index("ctx")]
            ok = given is fr.env["ctx"]
            self.oblige("C11-context-threaded", z3.BoolVal(bool(ok)), node, tag=f"[{fr.fn_name}:{fn.name}]")
            if not ok:
                args = list(args[: names.index("ctx")]) if "ctx" in names else list(args)
                kwargs = dict(kwargs, ctx=fr.env["ctx"])  # go on as the correct call would, the obligation above has failed
        return super().call_function(fn, args, kwargs, node, fr, **kw)

    def e_Name(self, n, fr):
        if n.id.startswith("HOLE_"):
            return Hole(int(n.id[5:]))
        return super().e_Name(n, fr)


def struct_contract(kind, probe=None):
    ens = list(DEPTHS + BELOW)
    names = ["C12-context_values", "C12-inputs", "C12-stacks", "C12-function_stack", "C12-cv-below", "C12-stacks-below", "C12-fs-below"]
    params = dict(stack=ListOf(VAL), ctx=full_ctx())
    if kind in ("lambda", "function"):
        params = dict(arg_stack=ListOf(VAL), self=VAL, arity=INT, ctx=full_ctx())
    if kind == "list_item":
        params = dict(s=ListOf(VAL), ctx=full_ctx())
    def setup(ex, fr):
        from pyvc.sym import named

        fr.env.setdefault("VAR_f", named("VAR_f", VAL))  # a function value defined elsewhere in the program

    return dict(
        params=params, setup=setup,
        lets={"cv0": "ctx.context_values", "ins0": "ctx.inputs", "st0": "ctx.stacks", "fs0": "ctx.function_stack"},
        requires=["len(ctx.inputs) >= 1", "len(ctx.context_values) >= 1", "len(ctx.stacks) >= 1", "ctx.default_arity >= 0"] + (["arity >= -1"] if "arity" in params else []),
        ensures=ens, ensures_names=names,
        modifies=list(params)[:1] + CTX_MODS, frame_check=False, fuel=1, may_raise=True,
        loops={**{i: LOOP_INV for i in range(8)}, **NESTED_LOOPS.get(probe, {}).get("top" if kind == "top" else kind, {})},
    )


def _nested_defs(fdef):
    out = []
    for st in ast.walk(fdef):
        if isinstance(st, ast.FunctionDef) and st is not fdef:
            out.append(st)
    return out


def structure_templates(world, lo, hi):
    import vyxal.transpile as tr

    rep = FunctionReport(f"structures#[{lo}:{hi}]")
    world.sink_handler = _template_sink
    errors = []
    texts = []
    for name, prog in PROBES[lo:hi]:
        world.current_probe = name
        try:
            text = holes_in(tr.transpile(prog))
        except Exception as e:  # noqa
            errors.append(f"{name}: transpile({prog!r}) raised {type(e).__name__}: {e}")
            continue
        texts.append((name, prog, text))
        try:
            compile(text.replace("HOLE_", "HOLE"), "<probe>", "exec")
            key = register_template(f"struct[{name}]", text, struct_contract("top", name))
        except SyntaxError as e:
            # emitted Python that does not compile executes nothing: that is C02's subject, not C11/C12's
            rep.path_notes.append(f"{name}: emitted Python does not compile ({e.msg}); left to C02")
            continue
        units = [(key, "top")]
        top = world.fn_index[key].node
        for nd in _nested_defs(top):
            kind = "lambda" if nd.name.startswith("_lambda") else "function" if nd.name.startswith("VAR_") else "list_item"
            k2 = f"template::struct[{name}].{nd.name}"
            fn = RealFn(k2, nd, elements_globals())
            fn.relpath = "template"
            world.fn_index[k2] = fn
            world.contracts[k2] = Contract(k2, **struct_contract(kind, name))
            units.append((k2, kind))
        for k2, kind in units:
            r = verify_function(world, k2, executor_cls=StructExecutor)
            rep.paths += r.paths
            for ob in r.obligations:
                if ob.kind == "cover":
                    continue
                ob.meta["probe"] = prog
                rep.obligations.append(ob)
            if r.error:
                errors.append(f"{k2}: {r.error}")
    if errors:
        rep.error, rep.error_kind = "; ".join(errors[:6]) + (f" (+{len(errors) - 6} more)" if len(errors) > 6 else ""), "subset"
    import hashlib

    rep.source_hash = hashlib.sha256(repr(texts).encode()).hexdigest()[:16]
    return rep


for _lo in range(0, len(PROBES), 7):
    W.analysis(f"structures#[{_lo}:{_lo + 7}]", (lambda lo: lambda world: structure_templates(world, lo, lo + 7))(_lo), props=["C11", "C12"])
