"""C15 / C17 / C20: positional codecs in vyxal/helpers.py and vyxal/encoding.py"""
from pyvc.sym import INT, BOOL, STR, CHAR, VAL, SEQ
from pyvc.world import ListOf
from . import W
from . import specs  # noqa

W.contract(
    "vyxal/helpers.py::from_base_digits",
    params=dict(digit_list=SEQ(INT), base=INT),
    result=INT,
    requires=[],
    ensures=["result == horner(digit_list, base)"],
    loops={0: dict(inv=["ret == horner(digit_list[:_k], base)"], hints=["horner(digit_list[:_k+1], base)"])},
    hints=["digit_list[:len(digit_list)] == digit_list"],
    props=["C15", "C17"],
)

W.contract(
    "vyxal/helpers.py::to_base_digits",
    params=dict(value=INT, base=INT),
    result=ListOf(INT),
    requires=["value >= 0", "base >= 2"],
    ensures=["result == digitsM(value, base)"],
    loops={0: dict(
        inv=["n >= 0", "digitsM(value, base) == digitsM(n, base) + revi(ret)"],
        types={"ret": SEQ(INT)},
        hints=["digitsM(n, base)", "revi(ret + [n % base])"],
        decreases="n",
    )},
    hints=["digitsM(n, base)", "revi(ret)"],
    props=["C15", "C17"],
)

W.contract(
    "vyxal/helpers.py::from_base_alphabet",
    params=dict(value=STR, alphabet=STR),
    result=INT,
    ensures=["result == horner(idxs(value, alphabet), len(alphabet))"],
    loops={0: dict(
        inv=["ret == horner(idxs(value[:_k], alphabet), len(alphabet))"],
        hints=["idxs(value[:_k+1], alphabet)", "horner(idxs(value[:_k+1], alphabet), len(alphabet))"],
    )},
    hints=["value[:len(value)] == value"],
    props=["C15"],
)

W.contract(
    "vyxal/helpers.py::to_base_alphabet",
    params=dict(value=INT, alphabet=STR),
    result=STR,
    requires=["value >= 0", "len(alphabet) >= 2"],
    ensures=["result == chars_at(digitsM(value, len(alphabet)), alphabet)"],
    hints=["comp_is_chars_at(digitsM(value, len(alphabet)), alphabet)"],
    props=["C15"],
)

W.lemma(
    "comp_is_chars_at",
    vars=dict(t=SEQ(INT), a=STR),
    goal="comp_4e5b2cdf(t, a) == chars_at(t, a)",
    ih=[dict(at=dict(t="t[:-1]"), measure="len(t)", when="len(t) > 0")],
    hints=["comp_4e5b2cdf(t, a)", "chars_at(t, a)"],
    needs=["vyxal/helpers.py::to_base_alphabet"],
    props=["C15"],
    note="the list comprehension in to_base_alphabet (mechanically turned into a recursive function) is chars_at",
)

# ---- pure arithmetic round trip
W.lemma(
    "horner_digitsM",
    vars=dict(n=INT, b=INT),
    requires=["n >= 0", "b >= 2"],
    goal="horner(digitsM(n, b), b) == n",
    ih=[dict(at=dict(n="n // b"), measure="n", when="n >= b")],
    hints=["digitsM(n, b)", "horner(digitsM(n, b), b)", "(digitsM(n // b, b) + [n % b])[:-1] == digitsM(n // b, b)"],
    fuel=2,
    props=["C15", "C17"],
    note="converting to base b and back is the identity",
)

W.lemma(
    "digits_below_base",
    vars=dict(n=INT, b=INT),
    requires=["n >= 0", "b >= 2"],
    goal="all_below(digitsM(n, b), b)",
    ih=[dict(at=dict(n="n // b"), measure="n", when="n >= b")],
    hints=["digitsM(n, b)", "all_below(digitsM(n, b), b)",
           "(digitsM(n // b, b) + [n % b])[:-1] == digitsM(n // b, b)"],
    fuel=2,
    props=["C15", "C17"],
    note="every digit of the base-b expansion lies in [0, b)",
)

# ---- alphabets: decoding inverts encoding when the alphabet has no repeated character
W.lemma(
    "below_found",
    vars=dict(ds=SEQ(INT), a=STR),
    requires=["injective(a)", "all_below(ds, len(a))"],
    goal="all_found(ds, a)",
    ih=[dict(at=dict(ds="ds[:-1]"), measure="len(ds)", when="len(ds) > 0")],
    hints=["all_below(ds, len(a))", "all_found(ds, a)", "injective(a)"],
    props=["C15", "C20"],
)

W.lemma(
    "idxs_chars_at",
    vars=dict(ds=SEQ(INT), a=STR),
    requires=["all_found(ds, a)"],
    goal="idxs(chars_at(ds, a), a) == ds",
    ih=[dict(at=dict(ds="ds[:-1]"), measure="len(ds)", when="len(ds) > 0")],
    hints=["all_found(ds, a)", "chars_at(ds, a)", "idxs(chars_at(ds, a), a)",
           "(chars_at(ds[:-1], a) + a[ds[-1]])[:-1] == chars_at(ds[:-1], a)"],
    props=["C15", "C20"],
)

W.lemma(
    "alphabet_roundtrip",
    vars=dict(n=INT, a=STR),
    requires=["n >= 0", "len(a) >= 2", "injective(a)"],
    goal="horner(idxs(chars_at(digitsM(n, len(a)), a), a), len(a)) == n",
    hints=["digits_below_base(n, len(a))", "below_found(digitsM(n, len(a)), a)", "idxs_chars_at(digitsM(n, len(a)), a)", "horner_digitsM(n, len(a))"],
    props=["C15"],
    note="from_base_alphabet(to_base_alphabet(n, a), a) == n, by the two function contracts",
)

W.lemma("lemma_len_revi", vars=dict(s=SEQ(INT)), goal="len(revi(s)) == len(s)",
        ih=[dict(at=dict(s="s[:-1]"), measure="len(s)", when="len(s) > 0")], hints=["unfold(revi(s))"], fuel=0, props=["C15", "C17"])

# ---- the two decompressors are the alphabet decoder at the live alphabets
W.contract(
    "vyxal/helpers.py::uncompress_num",
    params=dict(num=STR), result=INT,
    abstract_globals={},
    ensures=["result == horner(idxs(num, vyxal.encoding.codepage_number_compress), len(vyxal.encoding.codepage_number_compress))"],
    props=["C15"],
)

W.contract(
    "vyxal/helpers.py::uncompress_str",
    params=dict(string=STR), result=STR,
    requires=["horner(idxs(string, vyxal.encoding.codepage_string_compress), len(vyxal.encoding.codepage_string_compress)) >= 0"],
    ensures=["result == chars_at(digitsM(horner(idxs(string, vyxal.encoding.codepage_string_compress), len(vyxal.encoding.codepage_string_compress)), 27), vyxal.encoding.base_27_alphabet)"],
    props=["C15"],
)
