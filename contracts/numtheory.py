"""C17: the number overloads of the number-theory builtins reach the library call the definition names,
with these arguments, and return its result converted as specified.  The library functions themselves
(sympy.ntheory, math.gcd, bin, hex, int(., 16)) are assumed to meet their textbook definitions; that
assumption is conformance-sampled by the bounded check of C17 and is NOT proved."""
from pyvc.sym import INT, BOOL, STR, CHAR, VAL, SEQ
from pyvc.engine import UFn
from . import W


class _VyTypeNumber(UFn):
    def __init__(self):
        self.name = "vy_type"

    def apply(self, ex, args, kwargs):
        args = [a for a in args if a is not None]
        return "number" if len(args) == 1 else tuple("number" for _ in args)


def _setup(ex, fr):
    fr.env["vy_type"] = _VyTypeNumber()
    ex.w.val_never_none = True


# function -> (parameters, the defining expression for number arguments, written with the library calls it names)
WRAPPERS = {
    "is_prime": (["lhs"], "int(sympy.ntheory.isprime(lhs))"),
    "prime_factorisation": (["lhs"], "sympy.ntheory.primefactors(int(lhs))"),
    "divisors_or_prefixes": (["lhs"], "sympy.divisors(lhs)"),
    "vy_gcd": (["lhs", "rhs"], "math.gcd(lhs, rhs)"),
    "lowest_common_multiple": (["lhs", "rhs"], "sympy.nsimplify(sympy.lcm(lhs, rhs))"),
    "factorial": (["lhs"], "vyxalify(sympy.factorial(abs(lhs)))"),
    "n_choose_r": (["lhs", "rhs"], "sympy.binomial(lhs, rhs)"),
    "totient": (["lhs"], "sympy.totient(lhs)"),
    "next_prime": (["lhs"], "sympy.nextprime(lhs)"),
    "prev_prime": (["lhs"], "sympy.prevprime(int(lhs)) if lhs >= 3 else 1"),
    "vy_hex": (["lhs"], "hex(lhs)[2:]"),
    "square_root": (["lhs"], "sympy.sqrt(lhs)"),
    "halve": (["lhs"], "sympy.Rational(lhs, 2)"),
    "square": (["lhs"], "exponent(lhs, 2, ctx)"),
    "prime_factors": (["lhs"], "deep_flatten([[key] * value for key, value in sympy.ntheory.factorint(int(lhs)).items()], ctx=ctx)"),
    # explicit ranges: fixed bounds, independent of the implicit-range flags (M, m, Ṁ only move ctx.range_start / range_end)
    "inclusive_one_range": (["lhs"], "LazyList(range(1, int(lhs) + 1))"),
    "inclusive_zero_range": (["lhs"], "LazyList(range(0, int(lhs) + 1))"),
    "exclusive_one_range": (["lhs"], "LazyList(range(1, int(lhs)))"),
    "exclusive_zero_range": (["lhs"], "LazyList(range(0, int(lhs)))"),
    "vy_bin": (["lhs"], "vectorise(negate, [int(x) for x in bin(int(lhs))[3:]], ctx=ctx) if lhs < 0 else [int(x) for x in bin(int(lhs))[2:]]"),
}
INT_ARGS = {"inclusive_one_range", "inclusive_zero_range", "exclusive_one_range", "exclusive_zero_range"}
for _f, (_params, _expr) in WRAPPERS.items():
    W.contract(
        f"vyxal/elements.py::{_f}#number",
        params={**{p: (INT if _f in INT_ARGS else VAL) for p in _params}, "ctx": VAL}, setup=_setup,
        ensures=[f"result == ({_expr})"], ensures_names=["reaches-the-defining-library-call"],
        executor="template", frame_check=False, may_raise=True, fuel=1,
        note="number overload; the library call is an uninterpreted function assumed to meet its textbook definition",
        props=["C17"],
    )


# ---- the string overload of H (from hexadecimal): reaches int(text, 16)
class _VyTypeStr(UFn):
    def __init__(self):
        self.name = "vy_type"

    def apply(self, ex, args, kwargs):
        from pyvc.engine import Builtin

        return Builtin("str")


def _setup_str(ex, fr):
    fr.env["vy_type"] = _VyTypeStr()
    ex.w.val_never_none = True


W.contract(
    "vyxal/elements.py::vy_hex#string",
    params=dict(lhs=VAL, ctx=VAL), setup=_setup_str,
    ensures=["result == int(lhs, 16)"], ensures_names=["reaches-the-defining-library-call"],
    executor="template", frame_check=False, may_raise=True, fuel=1,
    note="string overload (from hexadecimal): the text is handed to int(., 16), assumed to meet its definition",
    props=["C17"],
)
