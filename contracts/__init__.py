"""Sidecar contracts: parsed and evaluated by pyvc; nothing here is imported by the repository."""
from pyvc.world import World
import pyvc.strings  # noqa

W = World()
